package refmodel

import (
	"errors"
	"fmt"
	"sort"
)

// Change kinds of the reference configuration algebra.
const (
	AddVoter = iota
	AddLearner
	Remove
	Update
)

// Change is one single-node change; ID 0 means "cancelled, skip".
type Change struct {
	Kind int
	ID   uint64
}

// Conf is the reference configuration: plain sets.
type Conf struct {
	Incoming     map[uint64]bool
	Outgoing     map[uint64]bool // non-empty iff joint
	Learners     map[uint64]bool
	LearnersNext map[uint64]bool
	AutoLeave    bool
}

func NewConf(voters, learners []uint64) *Conf {
	c := &Conf{Incoming: map[uint64]bool{}, Outgoing: map[uint64]bool{}, Learners: map[uint64]bool{}, LearnersNext: map[uint64]bool{}}
	for _, v := range voters {
		c.Incoming[v] = true
	}
	for _, v := range learners {
		c.Learners[v] = true
	}
	return c
}

func cp(m map[uint64]bool) map[uint64]bool {
	o := make(map[uint64]bool, len(m))
	for k := range m {
		o[k] = true
	}
	return o
}

func (c *Conf) Clone() *Conf {
	return &Conf{Incoming: cp(c.Incoming), Outgoing: cp(c.Outgoing), Learners: cp(c.Learners), LearnersNext: cp(c.LearnersNext), AutoLeave: c.AutoLeave}
}

func (c *Conf) Joint() bool { return len(c.Outgoing) > 0 }

// Member reports whether id has a place in the configuration (and hence a progress record).
func (c *Conf) Member(id uint64) bool {
	return c.Incoming[id] || c.Outgoing[id] || c.Learners[id] || c.LearnersNext[id]
}

func sorted(m map[uint64]bool) []uint64 {
	s := make([]uint64, 0, len(m))
	for k := range m {
		s = append(s, k)
	}
	sort.Slice(s, func(a, b int) bool { return s[a] < s[b] })
	return s
}

func (c *Conf) String() string {
	return fmt.Sprintf("voters=%v&&%v learners=%v next=%v autoleave=%v", sorted(c.Incoming), sorted(c.Outgoing), sorted(c.Learners), sorted(c.LearnersNext), c.AutoLeave)
}

func (c *Conf) Sets() (in, out, learners, next []uint64) {
	return sorted(c.Incoming), sorted(c.Outgoing), sorted(c.Learners), sorted(c.LearnersNext)
}

func (c *Conf) Equal(o *Conf) bool { return c.String() == o.String() }

func (c *Conf) apply(chs []Change) error {
	for _, ch := range chs {
		if ch.ID == 0 {
			continue
		}
		switch ch.Kind {
		case AddVoter:
			delete(c.Learners, ch.ID)
			delete(c.LearnersNext, ch.ID)
			c.Incoming[ch.ID] = true
		case AddLearner:
			if c.Learners[ch.ID] {
				continue
			}
			known := c.Member(ch.ID)
			delete(c.Incoming, ch.ID)
			delete(c.LearnersNext, ch.ID)
			if known && c.Outgoing[ch.ID] {
				// still a voter of the outgoing set: becomes a learner when the joint config is left
				c.LearnersNext[ch.ID] = true
			} else {
				c.Learners[ch.ID] = true
			}
		case Remove:
			delete(c.Incoming, ch.ID)
			delete(c.Learners, ch.ID)
			delete(c.LearnersNext, ch.ID)
		case Update:
		default:
			return errors.New("unknown change")
		}
	}
	if len(c.Incoming) == 0 {
		return errors.New("removed all voters")
	}
	return nil
}

// Simple applies changes without joint consensus.
func (c *Conf) Simple(chs []Change) (*Conf, error) {
	if c.Joint() {
		return nil, errors.New("simple change in joint config")
	}
	n := c.Clone()
	if err := n.apply(chs); err != nil {
		return nil, err
	}
	diff := 0
	for id := range c.Incoming {
		if !n.Incoming[id] {
			diff++
		}
	}
	for id := range n.Incoming {
		if !c.Incoming[id] {
			diff++
		}
	}
	if diff > 1 {
		return nil, errors.New("more than one voter changed")
	}
	return n, nil
}

// EnterJoint copies the incoming voters to the outgoing set and applies changes.
func (c *Conf) EnterJoint(autoLeave bool, chs []Change) (*Conf, error) {
	if c.Joint() {
		return nil, errors.New("already joint")
	}
	if len(c.Incoming) == 0 {
		return nil, errors.New("zero voters")
	}
	n := c.Clone()
	n.Outgoing = cp(c.Incoming)
	if err := n.apply(chs); err != nil {
		return nil, err
	}
	n.AutoLeave = autoLeave
	return n, nil
}

// LeaveJoint drops the outgoing set and turns staged learners into learners.
func (c *Conf) LeaveJoint() (*Conf, error) {
	if !c.Joint() {
		return nil, errors.New("not joint")
	}
	n := c.Clone()
	for id := range n.LearnersNext {
		n.Learners[id] = true
	}
	n.LearnersNext = map[uint64]bool{}
	n.Outgoing = map[uint64]bool{}
	n.AutoLeave = false
	return n, nil
}

// ApplyV2 interprets a ConfChangeV2 (transition: 0 auto, 1 joint implicit, 2 joint explicit).
func (c *Conf) ApplyV2(transition int, chs []Change) (*Conf, error) {
	if transition == 0 && len(chs) == 0 {
		return c.LeaveJoint()
	}
	if transition != 0 || len(chs) > 1 {
		return c.EnterJoint(transition != 2, chs)
	}
	return c.Simple(chs)
}

// CheckInvariants validates the structural invariants of the property statement.
func (c *Conf) CheckInvariants() error {
	for id := range c.Learners {
		if c.Incoming[id] || c.Outgoing[id] {
			return fmt.Errorf("%d is learner and voter", id)
		}
	}
	for id := range c.LearnersNext {
		if !c.Outgoing[id] {
			return fmt.Errorf("staged learner %d is not an outgoing voter", id)
		}
		if c.Learners[id] {
			return fmt.Errorf("%d staged and learner", id)
		}
		if c.Incoming[id] {
			return fmt.Errorf("staged learner %d is an incoming voter", id)
		}
	}
	if len(c.Incoming) == 0 {
		return errors.New("no voter")
	}
	if !c.Joint() && (len(c.LearnersNext) > 0 || c.AutoLeave) {
		return errors.New("non-joint config with staged learners or autoleave")
	}
	return nil
}
