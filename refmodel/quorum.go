// Package refmodel holds small, boring reference implementations that the
// monitors use as oracles instead of the library's own predicates.
package refmodel

import "math"

// Majority reports whether strictly more than half of set satisfies yes.
// The empty set imposes no constraint.
func Majority(set []uint64, yes func(uint64) bool) bool {
	if len(set) == 0 {
		return true
	}
	n := 0
	for _, id := range set {
		if yes(id) {
			n++
		}
	}
	return 2*n > len(set)
}

// JointMajority requires a majority of every voter set.
func JointMajority(voters [2][]uint64, yes func(uint64) bool) bool {
	return Majority(voters[0], yes) && Majority(voters[1], yes)
}

// CommittedIndex is the largest index acknowledged by a strict majority of set
// (ids without an acknowledgement count as 0); MaxUint64 for the empty set.
func CommittedIndex(set []uint64, acked map[uint64]uint64) uint64 {
	if len(set) == 0 {
		return math.MaxUint64
	}
	var best uint64
	// candidates are the acked values themselves (and 0)
	for _, id := range set {
		c := acked[id]
		if c <= best {
			continue
		}
		n := 0
		for _, id2 := range set {
			if acked[id2] >= c {
				n++
			}
		}
		if 2*n > len(set) {
			best = c
		}
	}
	return best
}

// JointCommittedIndex is the minimum over both sets.
func JointCommittedIndex(voters [2][]uint64, acked map[uint64]uint64) uint64 {
	a, b := CommittedIndex(voters[0], acked), CommittedIndex(voters[1], acked)
	if a < b {
		return a
	}
	return b
}

// Vote results.
const (
	VotePending = 1
	VoteLost    = 2
	VoteWon     = 3
)

// VoteResult: votes maps id -> yes/no; absent ids have not voted.
func VoteResult(set []uint64, votes map[uint64]bool) int {
	if len(set) == 0 {
		return VoteWon
	}
	yes, missing := 0, 0
	for _, id := range set {
		v, ok := votes[id]
		if !ok {
			missing++
		} else if v {
			yes++
		}
	}
	if 2*yes > len(set) {
		return VoteWon
	}
	if 2*(yes+missing) > len(set) {
		return VotePending
	}
	return VoteLost
}

// JointVoteResult combines both sets.
func JointVoteResult(voters [2][]uint64, votes map[uint64]bool) int {
	a, b := VoteResult(voters[0], votes), VoteResult(voters[1], votes)
	if a == b {
		return a
	}
	if a == VoteLost || b == VoteLost {
		return VoteLost
	}
	return VotePending
}

// UpToDate is the election restriction: candidate (term, index) of last entry vs the voter's.
func UpToDate(candTerm, candIndex, ourTerm, ourIndex uint64) bool {
	return candTerm > ourTerm || (candTerm == ourTerm && candIndex >= ourIndex)
}
