package mc

import (
	"bytes"
	"encoding/binary"
	"fmt"
	"sort"

	pb "go.etcd.io/raft/v3/raftpb"
)

func entEqual(a, b *pb.Entry) bool {
	return a.GetIndex() == b.GetIndex() && a.GetTerm() == b.GetTerm() && a.GetType() == b.GetType() && bytes.Equal(a.GetData(), b.GetData())
}

func entStr(e *pb.Entry) string {
	if e == nil {
		return "<none>"
	}
	return fmt.Sprintf("(%d@t%d %s %q)", e.GetIndex(), e.GetTerm(), e.GetType(), e.GetData())
}

// ---------------------------------------------------------------- C01

// MonC01 checks state-machine safety: every entry ever handed to any application
// at an index equals the first one handed out at that index; an installed
// snapshot agrees with the global applied history as a whole prefix.
type MonC01 struct {
	applied map[uint64]*pb.Entry
	chain   map[uint64]uint64
	maxIdx  uint64
	cursor  []uint64 // per node: last index handed out in this incarnation (0 = nothing yet)
	shared  bool
}

func NewMonC01() *MonC01 { return &MonC01{} }

func (m *MonC01) Prop() string { return "C01" }
func (m *MonC01) Init(w *World) {
	m.applied = map[uint64]*pb.Entry{}
	m.chain = map[uint64]uint64{InitIndex: 0}
	m.cursor = make([]uint64, len(w.Nodes))
}

func (m *MonC01) OnEvent(w *World, rec *StepRec) []*Violation {
	var out []*Violation
	if s := rec.AppliedSnap; s != nil {
		idx, term := s.GetMetadata().GetIndex(), s.GetMetadata().GetTerm()
		if idx > InitIndex {
			if e, ok := m.applied[idx]; !ok {
				out = append(out, &Violation{"C01", "snapshot-prefix", fmt.Sprintf("node %d installed a snapshot at index %d which no application ever applied", rec.Node+1, idx)})
			} else if e.GetTerm() != term {
				out = append(out, &Violation{"C01", "snapshot-prefix", fmt.Sprintf("node %d installed snapshot (%d, t%d) but the entry applied at %d is %s", rec.Node+1, idx, term, idx, entStr(e))})
			} else if c, ok := m.chain[idx]; ok && c != snapChain(s.GetData()) {
				out = append(out, &Violation{"C01", "snapshot-prefix", fmt.Sprintf("node %d installed snapshot at %d whose state differs from the applied prefix", rec.Node+1, idx)})
			}
		}
	}
	// nothing is dropped from or reordered in the committed sequence raft hands to a
	// node (hand-out order = order of the Readys; an installed snapshot or a restart
	// starts a new run)
	if rd := rec.Ready; rd != nil && rec.Node >= 0 && !rec.Restarted {
		var batch []*pb.Entry
		if w.Nodes[rec.Node].Cfg.Async {
			for _, q := range rec.QueuedLocal {
				if q.GetType() == pb.MsgStorageApply {
					batch = append(batch, q.GetEntries()...)
				}
			}
		} else {
			batch = rd.CommittedEntries
		}
		if rd.Snapshot != nil && rd.Snapshot.GetMetadata().GetIndex() > 0 {
			m.own()
			m.cursor[rec.Node] = rd.Snapshot.GetMetadata().GetIndex()
		}
		for _, e := range batch {
			if c := m.cursor[rec.Node]; c != 0 && e.GetIndex() != c+1 {
				out = append(out, &Violation{"C01", "no-drop-no-reorder", fmt.Sprintf("node %d was handed index %d right after index %d", rec.Node+1, e.GetIndex(), c)})
			}
			m.own()
			m.cursor[rec.Node] = e.GetIndex()
		}
	}
	if rec.Restarted {
		m.own()
		m.cursor[rec.Node] = 0 // a new incarnation starts a new run
	}
	for _, e := range rec.AppliedEnts {
		idx := e.GetIndex()
		if old, ok := m.applied[idx]; ok {
			if !entEqual(old, e) {
				out = append(out, &Violation{"C01", "applied-agree", fmt.Sprintf("node %d was handed %s at index %d, but %s was handed out there before", rec.Node+1, entStr(e), idx, entStr(old))})
			}
			continue
		}
		m.own()
		m.applied[idx] = e
		if c, ok := m.chain[idx-1]; ok {
			m.chain[idx] = chainStep(c, e)
		}
		if idx > m.maxIdx {
			m.maxIdx = idx
		}
	}
	return out
}

func (m *MonC01) Clone() Monitor {
	m.shared = true
	c := *m
	return &c
}

// own copies the maps before the first write after a Clone.
func (m *MonC01) own() {
	if !m.shared {
		return
	}
	a, ch := make(map[uint64]*pb.Entry, len(m.applied)+1), make(map[uint64]uint64, len(m.chain)+1)
	for k, v := range m.applied {
		a[k] = v
	}
	for k, v := range m.chain {
		ch[k] = v
	}
	m.applied, m.chain, m.cursor, m.shared = a, ch, append([]uint64(nil), m.cursor...), false
}

func (m *MonC01) History(b []byte) []byte {
	idx := make([]uint64, 0, len(m.applied))
	for i := range m.applied {
		idx = append(idx, i)
	}
	sort.Slice(idx, func(a, c int) bool { return idx[a] < idx[c] })
	for _, i := range idx {
		e := m.applied[i]
		b = binary.AppendUvarint(b, i)
		b = binary.AppendUvarint(b, e.GetTerm())
		b = binary.AppendUvarint(b, uint64(e.GetType()))
		b = binary.AppendUvarint(b, uint64(len(e.GetData())))
		b = append(b, e.GetData()...)
	}
	for _, c := range m.cursor {
		b = binary.AppendUvarint(b, c)
	}
	return b
}

// ---------------------------------------------------------------- C03

// MonC03 checks log matching over all pairs of logical logs (stable storage plus
// unstable tail) in every state, plus the internal shape of each log.
type MonC03 struct{}

func NewMonC03() *MonC03             { return &MonC03{} }
func (m *MonC03) Prop() string      { return "C03" }
func (m *MonC03) Init(w *World)     {}
func (m *MonC03) History(b []byte) []byte { return b }
func (m *MonC03) Clone() Monitor          { return m }

func checkLogShape(id uint64, l *LogView) *Violation {
	prev := l.BaseTerm
	for k, e := range l.Ents {
		want := l.BaseIndex + 1 + uint64(k)
		if e.GetIndex() != want {
			return &Violation{"C03", "contiguous", fmt.Sprintf("node %d: log position %d holds index %d", id, want, e.GetIndex())}
		}
		if e.GetTerm() < prev {
			return &Violation{"C03", "terms-monotone", fmt.Sprintf("node %d: term decreases from %d to %d at index %d", id, prev, e.GetTerm(), want)}
		}
		prev = e.GetTerm()
	}
	return nil
}

func checkLogMatching(ida, idb uint64, a, b *LogView) *Violation {
	hi := min(a.Last(), b.Last())
	lo := max(a.BaseIndex, b.BaseIndex)
	// highest index at which both know the term and agree
	var match uint64
	found := false
	for i := hi; i >= lo && i > 0; i-- {
		ta, oka := a.Term(i)
		tb, okb := b.Term(i)
		if oka && okb && ta == tb && ta != 0 {
			match, found = i, true
			break
		}
		if i == 0 {
			break
		}
	}
	if !found {
		return nil
	}
	for i := match; i >= lo && i > 0; i-- {
		ta, oka := a.Term(i)
		tb, okb := b.Term(i)
		if oka && okb && ta != tb {
			return &Violation{"C03", "log-matching", fmt.Sprintf("nodes %d and %d agree on (%d, t%d) but have terms %d and %d at index %d", ida, idb, match, mustTerm(a, match), ta, tb, i)}
		}
		ea, eb := a.Entry(i), b.Entry(i)
		if ea != nil && eb != nil && !entEqual(ea, eb) {
			return &Violation{"C03", "log-matching", fmt.Sprintf("nodes %d and %d agree on (%d, t%d) but hold %s and %s at index %d", ida, idb, match, mustTerm(a, match), entStr(ea), entStr(eb), i)}
		}
	}
	return nil
}

func mustTerm(l *LogView, i uint64) uint64 { t, _ := l.Term(i); return t }

func (m *MonC03) OnEvent(w *World, rec *StepRec) []*Violation {
	if rec.Node < 0 {
		return nil
	}
	i := rec.Node
	li := w.Log(i)
	if v := checkLogShape(w.Nodes[i].ID, li); v != nil {
		return []*Violation{v}
	}
	// every append on the wire is a contiguous slice of the sender's log at the moment it was produced
	if !w.Dead {
		for _, msg := range newMsgs(rec, w.Nodes[i].vs()) {
			if msg.GetType() != pb.MsgApp {
				continue
			}
			if t, ok := li.Term(msg.GetIndex()); ok && t != msg.GetLogTerm() {
				return []*Violation{{"C03", "append-is-slice-of-log", fmt.Sprintf("node %d produced MsgApp anchored at (%d, t%d) but its log has term %d there", w.Nodes[i].ID, msg.GetIndex(), msg.GetLogTerm(), t)}}
			}
			for k, e := range msg.GetEntries() {
				want := msg.GetIndex() + 1 + uint64(k)
				if e.GetIndex() != want {
					return []*Violation{{"C03", "append-is-slice-of-log", fmt.Sprintf("node %d produced MsgApp anchored at %d whose entry #%d has index %d (expected %d)", w.Nodes[i].ID, msg.GetIndex(), k, e.GetIndex(), want)}}
				}
				if le := li.Entry(want); le != nil && !entEqual(le, e) {
					return []*Violation{{"C03", "append-is-slice-of-log", fmt.Sprintf("node %d produced MsgApp carrying %s where its log holds %s", w.Nodes[i].ID, entStr(e), entStr(le))}}
				}
			}
		}
	}
	for j := range w.Nodes {
		if j == i {
			continue
		}
		if v := checkLogMatching(w.Nodes[i].ID, w.Nodes[j].ID, li, w.Log(j)); v != nil {
			return []*Violation{v}
		}
	}
	return nil
}
