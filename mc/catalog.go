package mc

import (
	"fmt"

	pb "go.etcd.io/raft/v3/raftpb"
)

// ---------------------------------------------------------------- scenario DSL

func ids(n int) []uint64 {
	var s []uint64
	for i := 1; i <= n; i++ {
		s = append(s, uint64(i))
	}
	return s
}

type feat struct {
	async, prevote, checkq, stepdown bool
}

func (f feat) tag() string {
	s := "sync"
	if f.async {
		s = "async"
	}
	if f.prevote {
		s += "+pv"
	}
	if f.checkq {
		s += "+cq"
	}
	if f.stepdown {
		s += "+sd"
	}
	return s
}

func (f feat) cfg() NodeCfg {
	c := DefaultNodeCfg()
	c.Async, c.PreVote, c.CheckQuorum, c.StepDownOnRemoval = f.async, f.prevote, f.checkq, f.stepdown
	return c
}

func newSc(name string, n int, voters []uint64, c NodeCfg) *Scenario {
	return &Scenario{Name: name, N: n, Cfg: []NodeCfg{c}, Voters: voters}
}

func (s *Scenario) budget(kv ...int) *Scenario {
	for i := 0; i+1 < len(kv); i += 2 {
		s.Budget[kv[i]] = kv[i+1]
	}
	return s
}

func (s *Scenario) named(suffix string) *Scenario {
	s.Name += suffix
	return s
}

// script helpers
func camp(i int) Event             { return Event{Kind: EvCampaign, Node: uint8(i)} }
func prop(i int) Event             { return Event{Kind: EvPropose, Node: uint8(i), Arg: 1} }
func propN(i, cnt int) Event       { return Event{Kind: EvPropose, Node: uint8(i), Arg: uint16(cnt)} }
func conf(i, k int) Event          { return Event{Kind: EvProposeConf, Node: uint8(i), Arg: uint16(k)} }
func read(i int) Event             { return Event{Kind: EvReadIndex, Node: uint8(i)} }
func xfer(i, j int) Event          { return Event{Kind: EvTransfer, Node: uint8(i), Peer: uint8(j)} }
func isolate(i int) Event          { return Event{Kind: EvIsolate, Node: uint8(i)} }
func cut(i, j int) Event           { return Event{Kind: EvCut, Node: uint8(i), Peer: uint8(j)} }
func heal() Event                  { return Event{Kind: EvHeal} }
func tick(i int) Event             { return Event{Kind: EvTick, Node: uint8(i)} }
func compact(i, keep int) Event    { return Event{Kind: EvCompact, Node: uint8(i), Arg: uint16(keep)} }
func crash(i, flags int) Event     { return Event{Kind: EvCrash, Node: uint8(i), Arg: uint16(flags)} }
func stop(i int) Event             { return Event{Kind: EvStop, Node: uint8(i)} }
func unreach(i, j int) Event       { return Event{Kind: EvUnreachable, Node: uint8(i), Peer: uint8(j)} }
func reportSnap(i, j, f int) Event { return Event{Kind: EvReportSnap, Node: uint8(i), Peer: uint8(j), Arg: uint16(f)} }
func forget(i int) Event           { return Event{Kind: EvForgetLeader, Node: uint8(i)} }

func ticks(i, n int) []Event {
	var out []Event
	for k := 0; k < n; k++ {
		out = append(out, tick(i))
	}
	return out
}

func seq(parts ...any) []Event {
	var out []Event
	for _, p := range parts {
		switch v := p.(type) {
		case Event:
			out = append(out, v)
		case []Event:
			out = append(out, v...)
		default:
			panic("seq: bad part")
		}
	}
	return out
}

// ---------------------------------------------------------------- E-BFS families

// bfsElectProp: fresh 3-voter cluster; one campaign and one proposal at any time, plus faults.
func bfsElectProp(f feat, faults ...int) *Scenario {
	s := newSc("bfs/elect+prop/"+f.tag(), 3, ids(3), f.cfg())
	s.budget(int(BCampaign), 1, int(BPropose), 1)
	s.CampaignNodes = []uint8{1, 2}
	s.ProposeNodes = []uint8{1, 3}
	s.budget(faults...)
	return s.named(faultTag(faults))
}

func faultTag(f []int) string {
	s := ""
	for i := 0; i+1 < len(f); i += 2 {
		s += fmt.Sprintf("/%s%d", budgetNames[f[i]], f[i+1])
	}
	return s
}

// bfsDueling: several campaigns racing, terms capped.
func bfsDueling(f feat, n, camps int, maxTerm uint64, faults ...int) *Scenario {
	s := newSc(fmt.Sprintf("bfs/dueling%d/%s", n, f.tag()), n, ids(n), f.cfg())
	s.budget(int(BCampaign), camps)
	s.MaxTerm = maxTerm
	s.budget(faults...)
	return s.named(faultTag(faults))
}

// bfsReplicate: node 1 is an established leader; proposals and faults race.
func bfsReplicate(f feat, props int, faults ...int) *Scenario {
	s := newSc("bfs/replicate/"+f.tag(), 3, ids(3), f.cfg())
	s.Prefix = []Event{camp(1)}
	s.budget(int(BPropose), props)
	s.ProposeNodes = []uint8{1, 2}
	s.budget(faults...)
	return s.named(faultTag(faults))
}

// bfsFailover: leader 1 has replicated an entry to node 2 only and is cut off;
// node 2 or 3 campaigns; the old leader's traffic is still in flight.
func bfsFailover(f feat, faults ...int) *Scenario {
	s := newSc("bfs/failover/"+f.tag(), 3, ids(3), f.cfg())
	s.Prefix = []Event{camp(1), cut(1, 3), prop(1)}
	s.budget(int(BCampaign), 1, int(BPropose), 1)
	s.CampaignNodes = []uint8{2, 3}
	s.ProposeNodes = []uint8{1, 2}
	s.MaxTerm = 3
	s.budget(faults...)
	return s.named(faultTag(faults))
}

// ---------------------------------------------------------------- D-DFS scripts

func ddScn(name string, n int, voters []uint64, f feat, script []Event, k int, budgets ...int) *Scenario {
	s := newSc("ddfs/"+name+"/"+f.tag(), n, voters, f.cfg())
	s.Script = script
	s.DevBound = k
	s.budget(budgets...)
	return s
}

// scriptFailover: leader change with a divergent tail and the old leader returning.
func scriptFailover() []Event {
	return seq(camp(1), prop(1), isolate(1), prop(1), prop(1), camp(2), prop(2), heal(), prop(2), camp(1), prop(1))
}

// scriptFigure8: the overwrite-a-majority-replicated-old-term-entry skeleton.
func scriptFigure8() []Event {
	return seq(camp(1), cut(1, 3), prop(1), isolate(1), camp(3), prop(3), heal(), isolate(3), camp(1), prop(1), heal(), camp(3), prop(3))
}

func scriptBasic() []Event {
	return seq(camp(1), prop(1), prop(2), read(1), read(3), prop(3))
}

func scriptRestartStages() []Event {
	return seq(camp(1), crash(2, 0), prop(1), crash(1, 0), camp(2), prop(2), crash(3, CrashAppliedZero), prop(2), crash(2, 0), camp(3), prop(3))
}

var defaultFaults = []int{int(BDrop), 1, int(BDup), 1, int(BCrash), 1, int(BCampaign), 1, int(BPropose), 1}

// ---------------------------------------------------------------- catalogue

func job(prop, tier string, strategy string, sc *Scenario, weight int, mons ...string) *Job {
	return &Job{Prop: prop, Tier: tier, Name: sc.Name, Strategy: strategy, Sc: sc, Mons: mons, Weight: weight}
}

var syncF = feat{}
var asyncF = feat{async: true}
var pvF = feat{prevote: true}
var cqF = feat{checkq: true}
var pvcqF = feat{prevote: true, checkq: true}
var asyncPvF = feat{async: true, prevote: true}

// safetyScenarios is the common pool for the log/commit safety properties.
func safetyScenarios(tier string) (bfs []*Scenario, dd []*Scenario) {
	k := 1
	if tier == "thorough" {
		k = 2
	}
	for _, f := range []feat{syncF, asyncF} {
		bfs = append(bfs,
			bfsElectProp(f),
			bfsElectProp(f, int(BDup), 1),
			bfsElectProp(f, int(BCrash), 1),
			bfsReplicate(f, 2, int(BDrop), 1),
			bfsReplicate(f, 2, int(BCrash), 1),
			bfsFailover(f),
			bfsFailover(f, int(BCrash), 1),
		)
		dd = append(dd,
			ddScn("failover", 3, ids(3), f, scriptFailover(), k, defaultFaults...),
			ddScn("figure8", 3, ids(3), f, scriptFigure8(), k, defaultFaults...),
			ddScn("restart-stages", 3, ids(3), f, scriptRestartStages(), k, defaultFaults...),
		)
	}
	return
}

// Jobs returns the deterministic job list of a property and tier.
func Jobs(prop, tier string) []*Job {
	var jobs []*Job
	add := func(strategy string, scs []*Scenario, w int, mons ...string) {
		for _, sc := range scs {
			jobs = append(jobs, job(prop, tier, strategy, sc, w, mons...))
		}
	}
	switch prop {
	case "C01", "C03", "C04", "C06", "C07":
		b, d := safetyScenarios(tier)
		add("bfs", b, 2, prop)
		add("ddfs", d, 1, prop)
	case "C02":
		var b []*Scenario
		for _, f := range []feat{syncF, asyncF, pvF} {
			b = append(b, bfsDueling(f, 3, 2, 3), bfsDueling(f, 3, 2, 3, int(BDup), 1), bfsDueling(f, 3, 2, 3, int(BCrash), 1))
		}
		add("bfs", b, 2, prop)
		_, d := safetyScenarios(tier)
		add("ddfs", d, 1, prop)
	case "C05":
		b, d := safetyScenarios(tier)
		add("bfs", b, 2, "C05", "C01", "C02", "C03", "C04")
		add("ddfs", d, 1, "C05", "C01", "C02", "C03", "C04")
	case "C14":
		b, d := safetyScenarios(tier)
		add("bfs", b, 2, prop)
		add("ddfs", d, 1, prop)
	}
	for i, j := range jobs {
		j.Index = i
	}
	return jobs
}

var _ = pb.ConfChangeTransitionAuto
