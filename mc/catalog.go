package mc

import (
	"fmt"
	"strings"

	pb "go.etcd.io/raft/v3/raftpb"
	"verif/nodexspec"
)

// ---------------------------------------------------------------- scenario DSL

func ids(n int) []uint64 {
	var s []uint64
	for i := 1; i <= n; i++ {
		s = append(s, uint64(i))
	}
	return s
}

type feat struct {
	async, prevote, checkq, stepdown bool
	nofwd, noccv                     bool // DisableProposalForwarding, DisableConfChangeValidation
}

func (f feat) tag() string {
	s := "sync"
	if f.async {
		s = "async"
	}
	if f.prevote {
		s += "+pv"
	}
	if f.checkq {
		s += "+cq"
	}
	if f.stepdown {
		s += "+sd"
	}
	if f.nofwd {
		s += "+nofwd"
	}
	if f.noccv {
		s += "+noccv"
	}
	return s
}

func (f feat) cfg() NodeCfg {
	c := DefaultNodeCfg()
	c.Async, c.PreVote, c.CheckQuorum, c.StepDownOnRemoval = f.async, f.prevote, f.checkq, f.stepdown
	c.DisableForwarding, c.DisableCCValidation = f.nofwd, f.noccv
	return c
}

func newSc(name string, n int, voters []uint64, c NodeCfg) *Scenario {
	return &Scenario{Name: name, N: n, Cfg: []NodeCfg{c}, Voters: voters}
}

func (s *Scenario) budget(kv ...int) *Scenario {
	for i := 0; i+1 < len(kv); i += 2 {
		s.Budget[kv[i]] = kv[i+1]
	}
	return s
}

func (s *Scenario) named(suffix string) *Scenario {
	s.Name += suffix
	return s
}

// script helpers
func camp(i int) Event             { return Event{Kind: EvCampaign, Node: uint8(i)} }
func prop(i int) Event             { return Event{Kind: EvPropose, Node: uint8(i), Arg: 1} }
func propN(i, cnt int) Event       { return Event{Kind: EvPropose, Node: uint8(i), Arg: uint16(cnt)} }
func conf(i, k int) Event          { return Event{Kind: EvProposeConf, Node: uint8(i), Arg: uint16(k)} }
func read(i int) Event             { return Event{Kind: EvReadIndex, Node: uint8(i)} }
func xfer(i, j int) Event          { return Event{Kind: EvTransfer, Node: uint8(i), Peer: uint8(j)} }
func isolate(i int) Event          { return Event{Kind: EvIsolate, Node: uint8(i)} }
func cut(i, j int) Event           { return Event{Kind: EvCut, Node: uint8(i), Peer: uint8(j)} }
func heal() Event                  { return Event{Kind: EvHeal} }
func tick(i int) Event             { return Event{Kind: EvTick, Node: uint8(i)} }
func compact(i, keep int) Event    { return Event{Kind: EvCompact, Node: uint8(i), Arg: uint16(keep)} }
func crash(i, flags int) Event     { return Event{Kind: EvCrash, Node: uint8(i), Arg: uint16(flags)} }
func stop(i int) Event             { return Event{Kind: EvStop, Node: uint8(i)} }
func unreach(i, j int) Event       { return Event{Kind: EvUnreachable, Node: uint8(i), Peer: uint8(j)} }
func reportSnap(i, j, f int) Event { return Event{Kind: EvReportSnap, Node: uint8(i), Peer: uint8(j), Arg: uint16(f)} }
func forget(i int) Event           { return Event{Kind: EvForgetLeader, Node: uint8(i)} }
func pauseApply(i, on int) Event   { return Event{Kind: EvPauseApply, Node: uint8(i), Arg: uint16(on)} }
func appendStep(i int) Event       { return Event{Kind: EvAppend, Node: uint8(i)} }
func pauseReady(i, on int) Event   { return Event{Kind: EvPauseReady, Node: uint8(i), Arg: uint16(on)} }
func holdFrom(i int) Event         { return Event{Kind: EvHoldFrom, Node: uint8(i)} }
func holdTo(i, j int) Event        { return Event{Kind: EvHoldFrom, Node: uint8(i), Peer: uint8(j)} } // only messages from i to j
func flush() Event                 { return Event{Kind: EvFlush} }
func deliverHeld(i, j int) Event   { return Event{Kind: EvDeliverHeld, Node: uint8(i), Peer: uint8(j)} }
func dupHeld(i, j int) Event       { return Event{Kind: EvDupHeld, Node: uint8(i), Peer: uint8(j)} }
func readyStep(i int) Event        { return Event{Kind: EvReady, Node: uint8(i)} }
func sendSnap(i, j int) Event      { return Event{Kind: EvSendSnap, Node: uint8(i), Peer: uint8(j)} }
func pauseAppend(i, on int) Event  { return Event{Kind: EvPauseAppend, Node: uint8(i), Arg: uint16(on)} }
func confMixed(i, k, n int) Event  { return Event{Kind: EvProposeConf, Node: uint8(i), Peer: uint8(n), Arg: uint16(k)} }
func confMixedLast(i, k, n int) Event {
	return Event{Kind: EvProposeConf, Node: uint8(i), Peer: uint8(n), Arg: uint16(k) | 0x100}
}

func ticks(i, n int) []Event {
	var out []Event
	for k := 0; k < n; k++ {
		out = append(out, tick(i))
	}
	return out
}

func seq(parts ...any) []Event {
	var out []Event
	for _, p := range parts {
		switch v := p.(type) {
		case Event:
			out = append(out, v)
		case []Event:
			out = append(out, v...)
		default:
			panic("seq: bad part")
		}
	}
	return out
}

// ---------------------------------------------------------------- E-BFS families

// bfsElectProp: fresh 3-voter cluster; one campaign and one proposal at any time, plus faults.
func bfsElectProp(f feat, faults ...int) *Scenario {
	s := newSc("bfs/elect+prop/"+f.tag(), 3, ids(3), f.cfg())
	s.budget(int(BCampaign), 1, int(BPropose), 1)
	s.CampaignNodes = []uint8{1, 2}
	s.ProposeNodes = []uint8{1, 3}
	s.budget(faults...)
	return s.named(faultTag(faults))
}

func faultTag(f []int) string {
	s := ""
	for i := 0; i+1 < len(f); i += 2 {
		s += fmt.Sprintf("/%s%d", budgetNames[f[i]], f[i+1])
	}
	return s
}

// bfsDueling: several campaigns racing, terms capped.
func bfsDueling(f feat, n, camps int, maxTerm uint64, faults ...int) *Scenario {
	s := newSc(fmt.Sprintf("bfs/dueling%d/%s", n, f.tag()), n, ids(n), f.cfg())
	s.budget(int(BCampaign), camps)
	s.MaxTerm = maxTerm
	s.budget(faults...)
	return s.named(faultTag(faults))
}

// bfsReplicate: node 1 is an established leader; proposals and faults race.
func bfsReplicate(f feat, props int, faults ...int) *Scenario {
	s := newSc("bfs/replicate/"+f.tag(), 3, ids(3), f.cfg())
	s.Prefix = []Event{camp(1)}
	s.budget(int(BPropose), props)
	s.ProposeNodes = []uint8{1, 2}
	s.budget(faults...)
	return s.named(faultTag(faults))
}

// bfsInflights: one leader, one follower, one entry per append; proposals and every order of
// delivering appends and acknowledgements (the follower's speed is the only freedom): all
// fill/drain patterns of the in-flight window.
func bfsInflights(f feat, maxInflight, props int) *Scenario {
	c := flowCfg(f, maxInflight, 1, 0, 0)
	s := newSc(fmt.Sprintf("bfs/inflights%d/", maxInflight)+f.tag(), 2, ids(2), c)
	s.Prefix = []Event{camp(1)}
	s.budget(int(BPropose), props)
	s.ProposeNodes = []uint8{1}
	return s
}

// bfsFailover: leader 1 has replicated an entry to node 2 only and is cut off;
// node 2 or 3 campaigns; the old leader's traffic is still in flight.
func bfsFailover(f feat, faults ...int) *Scenario {
	s := newSc("bfs/failover/"+f.tag(), 3, ids(3), f.cfg())
	s.Prefix = []Event{camp(1), cut(1, 3), prop(1)}
	s.budget(int(BCampaign), 1, int(BPropose), 1)
	s.CampaignNodes = []uint8{2, 3}
	s.ProposeNodes = []uint8{1, 2}
	s.MaxTerm = 3
	s.budget(faults...)
	return s.named(faultTag(faults))
}

// ---------------------------------------------------------------- D-DFS scripts

func ddScn(name string, n int, voters []uint64, f feat, script []Event, k int, budgets ...int) *Scenario {
	s := newSc("ddfs/"+name+"/"+f.tag(), n, voters, f.cfg())
	s.Script = script
	s.DevBound = k
	s.budget(budgets...)
	return s
}

// scriptFailover: leader change with a divergent tail and the old leader returning.
func scriptFailover() []Event {
	return seq(camp(1), prop(1), isolate(1), prop(1), prop(1), camp(2), prop(2), heal(), prop(2), camp(1), prop(1))
}

// scriptStaleBatch: node 1's append thread stalls; entry a commits through the others,
// b and c stay uncommitted in node 1's unstable tail (handed out, not written); a new
// leader overwrites b; the append thread then writes the stale batches one by one and
// the node crashes before the overwrite itself reaches the disk.
func scriptStaleBatch() []Event {
	return seq(camp(1), pauseAppend(1, 1), prop(1), isolate(1), prop(1), prop(1), camp(2), prop(2), heal(),
		appendStep(1), appendStep(1), appendStep(1), appendStep(1), appendStep(1), crash(1, 0), prop(2), pauseAppend(1, 0), prop(2))
}

// scriptFigure8: the overwrite-a-majority-replicated-old-term-entry skeleton.
func scriptFigure8() []Event {
	return seq(camp(1), cut(1, 3), prop(1), isolate(1), camp(3), prop(3), heal(), isolate(3), camp(1), prop(1), heal(), camp(3), prop(3))
}

func scriptBasic() []Event {
	return seq(camp(1), prop(1), prop(2), read(1), read(3), prop(3))
}

func scriptRestartStages() []Event {
	return seq(camp(1), crash(2, 0), prop(1), crash(1, 0), camp(2), prop(2), crash(3, CrashAppliedZero), prop(2), crash(2, 0), camp(3), prop(3))
}

var defaultFaults = []int{int(BDrop), 1, int(BDup), 1, int(BCrash), 1, int(BCampaign), 1, int(BPropose), 1, int(BDelay), 1, int(BPause), 1}

// ---------------------------------------------------------------- snapshot / compaction

func scriptSnapshot() []Event {
	return seq(camp(1), prop(1), isolate(3), prop(1), prop(1), compact(1, 0), heal(), prop(1), reportSnap(1, 3, 0), compact(3, 0), prop(1),
		isolate(2), prop(1), compact(1, 1), camp(1), heal(), prop(1))
}

// scriptSnapshotUnreachable: the snapshot for node 3 travels slowly; meanwhile the transport
// reports node 3 unreachable and the leader keeps accepting proposals.
func scriptSnapshotUnreachable() []Event {
	return seq(camp(1), prop(1), isolate(3), prop(1), prop(1), compact(1, 0), heal(), prop(1), unreach(1, 3), prop(1), prop(1), unreach(1, 3), prop(1))
}

// scriptManualSnapshotDivergent: node 3 led term 2 and holds an uncommitted tail of that
// term; the leader of term 3 (whose own tail is not yet quorum-backed) has its application ship
// the snapshot its storage holds to node 3 – a snapshot behind node 3's commit index, which
// node 3 ignores and answers with its commit index.
func scriptManualSnapshotDivergent() []Event {
	return seq(camp(1), prop(1), prop(1), compact(2, 0), camp(3), isolate(3), prop(3), prop(3), camp(2), isolate(1), prop(2), prop(2),
		heal(), isolate(1), sendSnap(2, 3), prop(2), heal(), prop(2))
}

// scriptCompactBeforeSend: the leader has built a catch-up MsgApp from its storage (stepped
// rejection, no Ready yet) when its application compacts the log inside the range the message
// carries; only then does the application call Ready and serialise the message. Explored by
// replay (NoClone), so the message really shares memory with the storage.
func scriptCompactBeforeSend() []Event {
	return seq(camp(1), prop(1), isolate(3), prop(1), prop(1), prop(1), heal(), holdFrom(3), prop(1), pauseReady(1, 1), flush(), compact(1, 0), pauseReady(1, 0), prop(1))
}

func scriptSnapshotRestart() []Event {
	return seq(camp(1), prop(1), prop(1), compact(2, 0), crash(2, CrashAppliedZero), isolate(3), prop(1), prop(1), compact(1, 0), heal(), prop(1),
		crash(3, 0), prop(1), compact(3, 0), crash(3, CrashAppliedZero), prop(1))
}

// scriptSnapshotTwice: the leader compacts twice, so that two different snapshots
// can be on their way to the same follower (the first one delayed).
func scriptSnapshotTwice() []Event {
	return seq(camp(1), prop(1), isolate(3), prop(1), compact(1, 0), heal(), tick(1), prop(1), prop(1), compact(1, 0), reportSnap(1, 3, 1), tick(1), prop(1), tick(1), prop(1))
}

// scriptSnapshotOvertakes: node 3's append thread is stalled with a first snapshot queued when a
// second, newer snapshot arrives and is queued behind it; the thread then resumes, so the
// acknowledgement of the first snapshot reaches raft while the second is still in progress.
func scriptSnapshotOvertakes() []Event {
	d13 := deliverHeld(1, 3)
	return seq(camp(1), prop(1), isolate(3), prop(1), prop(1), compact(1, 0), heal(), holdTo(1, 3), prop(1), d13 /* probe, rejected */, pauseAppend(3, 1), d13, /* first snapshot, queued */
		prop(1), prop(1), compact(1, 0), sendSnap(1, 3), d13, d13, d13, d13 /* second snapshot queued behind it */, pauseAppend(3, 0), prop(1), flush(), prop(1))
}

// scriptSnapshotFigure8: node 1 leads term 1 and appends two entries nobody sees; node 3 leads
// term 2 (node 2's vote) and appends two entries nobody sees; node 1 leads term 3, commits its
// term-1 entries with node 2, and its application – paging one entry per Ready – snapshots and
// compacts at the second of them. Node 3 returns with a tail whose last term (2) is higher than
// the term of the snapshot's entry (1).
func scriptSnapshotFigure8() []Event {
	return seq(camp(1), isolate(1), prop(1), prop(1),
		holdTo(3, 2), camp(3), deliverHeld(3, 2), prop(3),
		heal(), isolate(3), crash(1, 0), camp(1),
		holdTo(2, 1), camp(1), deliverHeld(2, 1), deliverHeld(2, 1),
		pauseReady(1, 1), deliverHeld(2, 1), readyStep(1), readyStep(1), compact(1, 0), pauseReady(1, 0),
		heal(), tick(1), tick(1), prop(1), tick(1), prop(1))
}

// scriptStaleApplyAck: node 3's apply thread is stalled with a batch that fills the apply budget;
// meanwhile node 3 falls behind, is caught up by a snapshot beyond that batch (installed and
// acknowledged by the append thread), and only then does the apply thread finish the old batch.
func scriptStaleApplyAck() []Event {
	return seq(camp(1), prop(1), pauseApply(3, 1), prop(1), isolate(3), prop(1), prop(1), compact(1, 0), heal(), tick(1), tick(1), pauseApply(3, 0), prop(1), tick(1), prop(1))
}

// scriptSnapshotDivergent: the follower that needs a snapshot is a deposed leader
// with a long uncommitted tail; the snapshot status is reported and a heartbeat
// goes out while the snapshot itself may still be in flight.
func scriptSnapshotDivergent() []Event {
	return seq(camp(3), isolate(3), prop(3), prop(3), prop(3), prop(3), prop(3), camp(1), prop(1), prop(1), prop(1), compact(1, 0), heal(), tick(1), reportSnap(1, 3, 0), tick(1), prop(1), tick(1))
}

// scriptSnapshotPlusEntries: the follower's application is slow to call Ready while a
// snapshot and the append that continues it are stepped, so one Ready carries a
// snapshot together with entries.
func scriptSnapshotPlusEntries() []Event {
	return seq(camp(1), prop(1), isolate(3), prop(1), prop(1), compact(1, 0), prop(1), heal(), tick(1),
		holdFrom(3), tick(1), tick(1), reportSnap(1, 3, 0), pauseReady(3, 1), flush(), pauseReady(3, 0), prop(1), tick(1), prop(1))
}

// scriptSnapshotPlusEntriesDivergent: as above, but the follower is a deposed leader whose stable
// log holds an uncommitted tail that reaches beyond the snapshot index and conflicts with it.
func scriptSnapshotPlusEntriesDivergent() []Event {
	return seq(camp(3), isolate(3), prop(3), prop(3), prop(3), prop(3), prop(3), camp(1), prop(1), prop(1), prop(1), compact(1, 0), prop(1), heal(), tick(1),
		holdFrom(3), tick(1), tick(1), reportSnap(1, 3, 0), pauseReady(3, 1), flush(), pauseReady(3, 0), prop(1), tick(1), prop(1))
}

// scriptSnapshotTermChange: a follower's append thread is slow while it installs a
// snapshot; an election raises its term before the write is acknowledged.
func scriptSnapshotTermChange() []Event {
	return seq(camp(1), prop(1), isolate(3), prop(1), compact(1, 0), heal(), tick(1), camp(2), prop(2), pauseAppend(3, 0), prop(2), tick(2), prop(2))
}

// scriptPagination: follower 2 persists a batch of three large entries while the
// leader's commit index is held back; its application then stops calling Ready while
// the commit index, a small further entry and that entry's commit index arrive, so the
// next Ready has to page over a committed range that starts in stable storage (large
// entries, one per page) and ends in the unstable tail (a small entry that would fit).
func scriptPagination() []Event {
	return seq(camp(1), holdFrom(1), propN(1, 3), flush(), prop(1), pauseReady(2, 1), flush(), flush(), flush(), pauseReady(2, 0), prop(1), flush(), prop(1))
}

// bfsPagination: the leader proposes a batch of three large
// entries and then a small one; the apply quota admits one large entry (or a large
// and a small one) per Ready. Ready/apply/Advance are separate steps, so new
// entries and commit indexes arrive while a page is being applied and the
// committed-but-unapplied range straddles stable storage and the unstable tail.
func bfsPagination(f feat, quota uint64) *Scenario {
	c := f.cfg()
	c.MaxCommittedSize = quota
	s := newSc(fmt.Sprintf("bfs/pagination/%s/quota%d", f.tag(), quota), 3, ids(3), c)
	s.Prefix = []Event{camp(1)}
	s.Budget[BPropose] = 2
	s.PropSizes = []int{30, 1}
	s.PropBatch = []int{3, 1}
	s.ProposeNodes = []uint8{1}
	if f.async {
		s.LazyLocal = true
	} else {
		s.SplitReady = true
	}
	return s
}

// scriptConfLag: node 1's apply thread is paused while the leader demotes the two
// other voters one after the other; the leader restarts and elects itself in a new
// term (it is the only voter); node 1, two committed changes behind, is asked to campaign.
func scriptConfLag() []Event {
	return seq(camp(3), prop(3), pauseApply(1, 1), conf(3, 0), conf(3, 1), prop(3), isolate(3), crash(3, 0), camp(3), camp(1), prop(1), heal(), pauseApply(1, 0), prop(3))
}

// bfsConfLag: leader 3 demotes the other voters one by one while their apply
// threads may lag; the lagging node and the leader may campaign.
func bfsConfLag(f feat) *Scenario {
	s := newSc("bfs/conf-lag/"+f.tag(), 3, ids(3), f.cfg())
	s.Prefix = []Event{camp(3)}
	s.ConfMenu = []ConfSpec{{Changes: "l1"}, {Changes: "l2"}}
	s.ConfNodes = []uint8{3}
	s.Budget[BProposeConf] = 2
	s.Budget[BCampaign] = 2
	s.CampaignNodes = []uint8{1, 3}
	s.MaxTerm = 2
	if !f.async {
		s.SplitReady = true
	}
	return s
}

// bfsSnapshot: leader 1 has compacted past what node 3 holds; the snapshot, appends,
// heartbeats, the status report and faults race.
func bfsSnapshot(f feat, faults ...int) *Scenario {
	s := newSc("bfs/snapshot/"+f.tag(), 3, ids(3), f.cfg())
	s.Prefix = []Event{camp(1), prop(1), isolate(3), prop(1), prop(1), compact(1, 0)}
	s.Budget[BPropose] = 1
	s.ProposeNodes = []uint8{1}
	s.Budget[BSnapFail] = 1
	s.budget(faults...)
	// the heal is the first thing that happens
	s.Prefix = append(s.Prefix, heal(), prop(1))
	s.LazyReady = false
	return s.named(faultTag(faults))
}

// ---------------------------------------------------------------- membership

var (
	ccAddLearner4 = ConfSpec{Changes: "l4"}
	ccAddVoter4   = ConfSpec{Changes: "v4"}
	ccRemove3     = ConfSpec{Changes: "r3"}
	ccRemove1     = ConfSpec{Changes: "r1"}
	ccV1AddVoter4 = ConfSpec{V1: true, Changes: "v4"}
	ccV1Remove2   = ConfSpec{V1: true, Changes: "r2"}
	ccJointImpl   = ConfSpec{Transition: pb.ConfChangeTransitionJointImplicit, Changes: "v4 r3"}
	ccJointExpl   = ConfSpec{Transition: pb.ConfChangeTransitionJointExplicit, Changes: "v4 l3"}
	ccJointAuto2  = ConfSpec{Changes: "v4 r1"}
	ccLeave       = ConfSpec{}
	ccDemote2     = ConfSpec{Changes: "l2 v4"}
)

var confMenu = []ConfSpec{ccAddLearner4, ccAddVoter4, ccRemove3, ccRemove1, ccV1AddVoter4, ccV1Remove2, ccJointImpl, ccJointExpl, ccJointAuto2, ccLeave, ccDemote2}

const (
	mAddLearner4 = iota
	mAddVoter4
	mRemove3
	mRemove1
	mV1AddVoter4
	mV1Remove2
	mJointImpl
	mJointExpl
	mJointAuto2
	mLeave
	mDemote2
)

func confSc(name string, f feat, script []Event, k int, budgets ...int) *Scenario {
	s := ddScn(name, 4, ids(3), f, script, k, budgets...)
	s.ConfMenu = confMenu
	return s
}

func scriptLearner() []Event {
	return seq(camp(1), prop(1), conf(1, mAddLearner4), prop(1), conf(1, mAddVoter4), prop(1), isolate(1), camp(4), prop(4), heal(), prop(4), conf(4, mRemove3), prop(4))
}

func scriptSimpleConf() []Event {
	return seq(camp(1), conf(1, mV1AddVoter4), prop(1), conf(2, mV1Remove2), prop(1), conf(1, mRemove1), prop(1), camp(3), prop(3))
}

func scriptJoint() []Event {
	return seq(camp(1), prop(1), conf(1, mJointImpl), prop(1), prop(2), conf(1, mJointExpl), prop(1), conf(1, mLeave), prop(1), conf(1, mJointAuto2), prop(1), camp(2), prop(2))
}

// scriptReplaceTwo: two voters are replaced at once, so the joint configuration
// (1 4 5)&&(1 2 3) has two outgoing-only and two incoming-only voters; leadership changes
// hands while joint, the new leader leaves the joint configuration, then another election.
func scriptReplaceTwo() []Event {
	return seq(camp(1), prop(1), conf(1, 0), prop(1), isolate(1), camp(4), prop(4), heal(), prop(4), conf(4, 1), prop(4), camp(5), prop(5))
}

func replaceTwoSc(f feat, k int, budgets ...int) *Scenario {
	s := ddScn("replace-two", 5, ids(3), f, scriptReplaceTwo(), k, budgets...)
	s.ConfMenu = []ConfSpec{{Transition: pb.ConfChangeTransitionJointExplicit, Changes: "v4 v5 r2 r3"}, ccLeave}
	return s
}

// scriptAutoLeaveDuringTransfer: a leadership transfer to a cut-off node is pending while the
// leader applies an auto-leave joint change and the entry behind it (the automatic leave
// proposal is refused during a transfer); the transfer then times out and the leader has to
// retry the leave on a later apply.
func scriptAutoLeaveDuringTransfer() []Event {
	return seq(ticks(1, 3), prop(1), cut(1, 3), holdFrom(2), conf(1, 0), prop(1), xfer(1, 3), flush(), ticks(1, 4), prop(1), heal(), prop(1), prop(1))
}

func autoLeaveTransferSc(f feat, k int, budgets ...int) *Scenario {
	s := tickSc("autoleave-during-transfer", 3, f, scriptAutoLeaveDuringTransfer(), k, budgets...)
	s.ConfMenu = []ConfSpec{{Transition: pb.ConfChangeTransitionJointImplicit, Changes: "l3"}}
	s.TickNodes = []uint8{1}
	return s
}

// scriptRemoveLowersQuorum: four voters, node 4 cut off. The leader's apply thread is stalled
// while the removal of node 4 commits; a later entry is acknowledged by one follower only (not
// a quorum of four). When the leader finally applies the removal the quorum drops to two, the
// later entry commits inside the configuration switch and the new commit index is broadcast.
func scriptRemoveLowersQuorum() []Event {
	return seq(camp(1), prop(1), isolate(4), pauseApply(1, 1), conf(1, 0), holdFrom(3), prop(1), pauseApply(1, 0), prop(1), flush(), heal(), prop(1))
}

func removeLowersQuorumSc(k int, budgets ...int) *Scenario {
	s := ddScn("remove-lowers-quorum", 4, ids(4), asyncF, scriptRemoveLowersQuorum(), k, budgets...)
	s.ConfMenu = []ConfSpec{{Changes: "r4"}}
	return s
}

func scriptConfFailover() []Event {
	return seq(camp(1), prop(1), cut(1, 3), conf(1, mJointExpl), isolate(1), camp(2), prop(2), conf(2, mLeave), heal(), prop(2), conf(2, mAddVoter4), prop(2))
}

// bfsConf: an established leader; conf-change proposals from a small menu at any
// node, a campaign and faults race.
func bfsConf(f feat, menu []ConfSpec, nconf int, faults ...int) *Scenario {
	s := newSc("bfs/conf/"+f.tag(), 4, ids(3), f.cfg())
	s.Prefix = []Event{camp(1)}
	s.ConfMenu = menu
	s.ConfNodes = []uint8{1, 2}
	s.Budget[BProposeConf] = nconf
	s.budget(faults...)
	s.CampaignNodes = []uint8{2}
	s.MaxTerm = 3
	return s.named(fmt.Sprintf("/menu%d", len(menu)) + faultTag(faults))
}

// ---------------------------------------------------------------- reads

func scriptRead() []Event {
	return seq(camp(1), read(1), prop(1), read(1), read(2), isolate(1), camp(2), prop(2), read(1), read(3), prop(2), read(2), heal(), read(1), prop(3), read(3))
}

func scriptReadSingleton() []Event {
	return seq(camp(1), prop(1), read(1), prop(1), crash(1, CrashLoseUnsynced), camp(1), read(1), prop(1), read(1))
}

// scriptReadRemovedLeader: two voters; the leader removes itself and (without
// StepDownOnRemoval) keeps leading a group it is no member of, while the remaining
// voter elects itself and commits.
// scriptReadStaleAcksAcrossConf: copies of the heartbeat responses that confirmed a first read
// stay in the network; the leader applies a configuration change, is cut off and deposed; a second
// read is issued at it and only then do the old copies arrive.
func scriptReadStaleAcksAcrossConf() []Event {
	return seq(camp(1), prop(1), holdTo(2, 1), holdTo(3, 1), read(1), dupHeld(2, 1), dupHeld(3, 1), heal(), conf(1, 0), prop(1), isolate(1), camp(2), prop(2), read(1), flush(), heal(), read(1), read(2))
}

func scriptReadRemovedLeader() []Event {
	return seq(camp(1), prop(1), read(1), conf(1, 0), prop(2), read(1), camp(2), prop(2), read(1), read(2))
}

// scriptReadJointShrink: the group shrinks to one incoming voter through an explicit
// joint configuration; reads are issued while the configuration is joint.
func scriptReadJointShrink() []Event {
	return seq(camp(1), prop(1), conf(1, 0), read(1), read(2), prop(1), read(1), conf(1, 1), read(1), prop(1))
}

// scriptReadStaleAcks: five voters; a read stays half-acknowledged when its leader is
// deposed; the same node leads again later, is partitioned into a minority while a
// new leader commits, and is asked to read.
func scriptReadStaleAcks() []Event {
	return seq(camp(1), prop(1), cut(1, 3), cut(1, 4), cut(1, 5), read(1), heal(),
		cut(3, 2), cut(3, 4), cut(3, 5), camp(3), heal(), camp(1), prop(1),
		cut(1, 2), cut(1, 3), cut(1, 4), cut(5, 2), cut(5, 3), cut(5, 4), camp(2), prop(2), read(1), read(5), heal(), read(1))
}

func scriptReadConf() []Event {
	return seq(camp(1), prop(1), read(2), conf(1, mRemove1), read(1), read(2), camp(2), read(3), prop(2), read(1))
}

// bfsRead: established leader with a committed entry; reads at any node, a
// proposal, a competing campaign and partitions realised by drops.
func bfsRead(f feat, reads int, faults ...int) *Scenario {
	s := newSc("bfs/read/"+f.tag(), 3, ids(3), f.cfg())
	s.Prefix = []Event{camp(1), prop(1)}
	s.Budget[BRead] = reads
	s.ReadNodes = []uint8{1, 2}
	s.budget(faults...)
	s.CampaignNodes = []uint8{2, 3}
	s.MaxTerm = 3
	return s.named(faultTag(faults))
}

// ---------------------------------------------------------------- flow control

func flowCfg(f feat, maxInflight int, maxSize, maxBytes, maxUncommitted uint64) NodeCfg {
	c := f.cfg()
	c.MaxInflight, c.MaxSizePerMsg, c.MaxInflightBytes, c.MaxUncommitted = maxInflight, maxSize, maxBytes, maxUncommitted
	return c
}

func scriptFlow() []Event {
	return seq(camp(1), isolate(3), prop(1), prop(1), prop(1), prop(1), prop(1), heal(), prop(1), unreach(1, 2), prop(1), prop(1), isolate(1), prop(1), prop(1), prop(1), prop(1), heal(), camp(2), prop(2))
}

// scriptInflightRing: exact scheduling of appends and acknowledgements between a leader and one
// follower (everything is held back and delivered one message at a time): the window fills to 4,
// half of it is acknowledged, one more append is sent (the ring buffer grows with a non-zero
// start), one more acknowledgement, then the follower goes silent while proposals continue until
// the count limit binds.
func scriptInflightRing() []Event {
	d12, d21 := deliverHeld(1, 2), deliverHeld(2, 1)
	return seq(camp(1), holdFrom(1), holdFrom(2), prop(1), prop(1), prop(1), prop(1), d12, d12, d21, d21, prop(1), d12, d21, prop(1), prop(1), prop(1), prop(1), prop(1), prop(1), prop(1),
		d12, d21, prop(1), prop(1))
}

// scriptFlowHeartbeat: the window towards a cut-off follower fills and stays full; after the
// partition heals a heartbeat round un-pauses the flow while the window is still full (the
// leader then sends an empty append to carry the commit index).
func scriptFlowHeartbeat() []Event {
	return seq(camp(1), isolate(3), prop(1), prop(1), prop(1), prop(1), prop(1), heal(), tick(1), prop(1), tick(1), prop(1), prop(1))
}

// scriptFlowSnapshotLeader: a node that joined through a snapshot later becomes
// leader and streams to a follower that stops acknowledging.
func scriptFlowSnapshotLeader() []Event {
	return seq(camp(1), prop(1), isolate(3), prop(1), compact(1, 0), heal(), tick(1), prop(1), camp(3), prop(3), isolate(2), prop(3), prop(3), prop(3), prop(3), prop(3), heal(), tick(3), prop(3))
}

// scriptQuotaOverCredit: acknowledgements are held back while the leader accepts
// proposals, then the leader is cut off; the held acknowledgements arrive (a prefix
// commits and is applied while a tail stays uncommitted) and the clients keep proposing.
func scriptQuotaOverCredit() []Event {
	return seq(camp(1), holdFrom(2), holdFrom(3), prop(1), prop(1), prop(1), isolate(1), prop(1), prop(1), flush(),
		prop(1), prop(1), prop(1), prop(1), prop(1), prop(1), prop(1), prop(1))
}

// scriptSliceGap: the leader's append thread is held back, so a fresh proposal
// stays unstable while a lagging follower is probed across stable entries of
// uneven size (a small one that fits the message limit, a large one that does not).
func scriptSliceGap() []Event {
	return seq(camp(1), isolate(3), prop(1), prop(1), heal(), pauseAppend(1, 1), prop(1), prop(1), pauseAppend(1, 0), prop(1))
}

// scriptMixedBatch: configuration changes proposed in one MsgProp together with normal entries.
func scriptMixedBatch() []Event {
	return seq(camp(1), prop(1), confMixed(1, mAddLearner4, 2), prop(1), confMixed(2, mAddVoter4, 1), prop(2), confMixed(1, mRemove3, 2), prop(1))
}

// scriptBatchThenConf: a batch whose configuration change comes after normal
// entries, applied one entry per Ready, followed by another change.
func scriptBatchThenConf() []Event {
	return seq(camp(1), prop(1), confMixedLast(1, mAddLearner4, 2), conf(1, mAddVoter4), prop(1), confMixedLast(2, mRemove3, 1), conf(1, mJointExpl), prop(1))
}

// scriptSnapLease: a CheckQuorum follower hears nothing for more than an election
// timeout (its own randomized timeout is longer), then a slow snapshot from its
// leader arrives, and right after it a vote request from another node.
func scriptSnapLease() []Event {
	return seq(ticks(1, 3), prop(1), isolate(3), prop(1), prop(1), compact(1, 0), heal(), tick(1), ticks(3, 4), flush(), camp(2), prop(2), roundTicks(3, 1))
}

// scriptCheckQuorumSnapshotPeer: a CheckQuorum leader has a snapshot on its way to node 3 (slow,
// outcome never reported) when it loses contact with everybody: a peer awaiting a snapshot is not
// a peer heard from.
func scriptCheckQuorumSnapshotPeer() []Event {
	return seq(ticks(1, 3), prop(1), isolate(3), prop(1), prop(1), compact(1, 0), heal(), tick(1), tick(1), isolate(1), ticks(1, 8), ticks(2, 4), heal(), flush(), roundTicks(3, 2), prop(2))
}

// scriptCandidateSnapshot: a node becomes (pre-)candidate while a snapshot from the
// leader of its current term is still on its way (the leader's id differs from the term).
func scriptCandidateSnapshot() []Event {
	return seq(camp(2), prop(2), camp(1), prop(1), isolate(3), prop(1), prop(1), compact(1, 0), heal(), tick(1), holdFrom(3), camp(3), flush(), prop(1), tick(1))
}

// scriptJointCheckQuorum: the leader is in a joint configuration and loses contact
// with a majority of the outgoing voters while the incoming voters keep answering.
func scriptJointCheckQuorum() []Event {
	return seq(ticks(1, 3), prop(1), conf(1, 0), ticks(1, 2), prop(1), ticks(1, 1), isolate(2), isolate(3), ticks(1, 8), prop(1), ticks(1, 2))
}

// ---------------------------------------------------------------- tick driven

func tickCfgs(f feat, n int) []NodeCfg {
	var out []NodeCfg
	for i := 0; i < n; i++ {
		c := f.cfg()
		c.ElectionTick, c.HeartbeatTick = 3, 1
		c.Timeout = 3 + i%3
		out = append(out, c)
	}
	return out
}

func tickSc(name string, n int, f feat, script []Event, k int, budgets ...int) *Scenario {
	s := ddScn(name, n, ids(n), f, script, k, budgets...)
	s.Cfg = tickCfgs(f, n)
	return s
}

func roundTicks(n, rounds int) []Event {
	var out []Event
	for r := 0; r < rounds; r++ {
		for i := 1; i <= n; i++ {
			out = append(out, tick(i))
		}
	}
	return out
}

func scriptPrevoteRejoin() []Event {
	return seq(ticks(1, 3), prop(1), isolate(3), ticks(3, 5), prop(1), roundTicks(2, 2), ticks(3, 5), heal(), roundTicks(3, 2), prop(1), ticks(3, 4), roundTicks(3, 1))
}

func scriptCheckQuorumLease() []Event {
	return seq(ticks(1, 3), prop(1), roundTicks(3, 1), camp(3), isolate(1), ticks(1, 3), ticks(1, 3), ticks(2, 4), heal(), roundTicks(3, 2), prop(2), xfer(2, 3), roundTicks(3, 2))
}

// scriptLateSameTermVote: node 5 campaigns for term 1 but its requests are held back; node 1
// wins term 1 with nodes 2 and 3 while node 4 is cut off; node 4 then learns of the leader from
// a heartbeat only (it has not voted in term 1 and holds no entry of that term) and, well within
// its lease, receives node 5's stale same-term request.
func scriptLateSameTermVote() []Event {
	return seq(holdFrom(5), camp(5), cut(1, 4), camp(1), heal(), holdTo(1, 4), tick(1), deliverHeld(1, 4), tick(4), deliverHeld(5, 4), tick(4), flush(), roundTicks(5, 1), prop(1))
}

// scriptCheckQuorumReports: the leader is cut off; its transport keeps reporting the peers
// unreachable (and a snapshot failure, and a transfer request arrives) – local reports about a
// peer are not contact with that peer.
// scriptCheckQuorumTransfer: node 1 leads and is asked to hand over to node 2 while node 2 cannot
// be reached (the transfer times out), then loses contact with everybody and keeps receiving
// transfer requests with alternating targets.
func scriptCheckQuorumTransfer() []Event {
	return seq(ticks(1, 3), prop(1), roundTicks(3, 1), cut(1, 2), xfer(1, 2), ticks(1, 2), ticks(3, 1), ticks(1, 2), heal(), roundTicks(3, 1), prop(1),
		isolate(1), ticks(1, 2), xfer(1, 2), ticks(1, 2), xfer(1, 3), ticks(1, 2), xfer(1, 2), ticks(1, 2))
}

func scriptCheckQuorumReports() []Event {
	return seq(ticks(1, 3), prop(1), roundTicks(3, 1), isolate(1),
		ticks(1, 2), unreach(1, 2), unreach(1, 3), ticks(1, 2), unreach(1, 2), reportSnap(1, 3, 1), ticks(1, 2), xfer(1, 2), unreach(1, 3), ticks(1, 2), unreach(1, 2), unreach(1, 3), ticks(1, 2),
		ticks(2, 4), heal(), roundTicks(3, 2), prop(2))
}

// ---------------------------------------------------------------- catalogue

func job(prop, tier string, strategy string, sc *Scenario, weight int, mons ...string) *Job {
	return &Job{Prop: prop, Tier: tier, Name: sc.Name, Strategy: strategy, Sc: sc, Mons: mons, Weight: weight}
}

var syncF = feat{}
var asyncF = feat{async: true}
var pvF = feat{prevote: true}
var cqF = feat{checkq: true}
var pvcqF = feat{prevote: true, checkq: true}
var asyncPvF = feat{async: true, prevote: true}

// tickSnap: heartbeats on every leader tick, elections far away.
func tickSnap(s *Scenario) *Scenario {
	c := s.cfg(0)
	c.ElectionTick, c.HeartbeatTick, c.Timeout = 10, 1, 10
	s.Cfg = []NodeCfg{c}
	return s
}

type pool struct {
	bfs, dd []*Scenario
}

func (p *pool) add(o pool) { p.bfs = append(p.bfs, o.bfs...); p.dd = append(p.dd, o.dd...) }

func devK(tier string) int {
	if tier == "thorough" {
		return 2
	}
	return 1
}

// poolSafety: elections, replication, failover, restarts.
func poolSafety(tier string) (p pool) {
	k := devK(tier)
	for _, f := range []feat{syncF, asyncF} {
		p.bfs = append(p.bfs,
			bfsElectProp(f),
			bfsElectProp(f, int(BDup), 1),
			bfsElectProp(f, int(BCrash), 1),
			bfsReplicate(f, 2, int(BDrop), 1),
			bfsReplicate(f, 2, int(BCrash), 1),
			bfsFailover(f),
			bfsFailover(f, int(BCrash), 1),
		)
		p.dd = append(p.dd,
			ddScn("failover", 3, ids(3), f, scriptFailover(), k, defaultFaults...),
			ddScn("figure8", 3, ids(3), f, scriptFigure8(), k, defaultFaults...),
			ddScn("restart-stages", 3, ids(3), f, scriptRestartStages(), k, defaultFaults...),
			ddScn("basic", 3, ids(3), f, scriptBasic(), k+1, defaultFaults...),
			split(ddScn("failover", 3, ids(3), f, scriptFailover(), k, defaultFaults...)),
		)
		p.bfs = append(p.bfs, split(bfsReplicate(f, 2)))
	}
	{
		qv := ddScn("queued-votes", 3, ids(3), asyncF, scriptQueuedVotes(), k, int(BDrop), 1, int(BDup), 1, int(BCrash), 1)
		qv.NoClone = true
		p.dd = append(p.dd, qv)
	}
	{
		ss := tickSnap(ddScn("stale-self-ack", 3, ids(3), asyncF, scriptStaleSelfAck(), k, int(BDrop), 1, int(BDup), 1, int(BCrash), 1))
		p.dd = append(p.dd, ss)
	}
	// proposals at followers with forwarding disabled (refused, never appended)
	for _, f := range []feat{{nofwd: true}, {nofwd: true, async: true}} {
		p.dd = append(p.dd, ddScn("no-forwarding", 3, ids(3), f,
			seq(camp(1), prop(2), prop(1), prop(3), isolate(1), camp(2), prop(1), prop(3), prop(2), heal(), prop(1), prop(3), prop(2)), k, defaultFaults...))
	}
	// a leadership transfer to a cut-off node times out; the leader carries on
	for _, f := range []feat{syncF, asyncF} {
		tt := tickSc("transfer-timeout", 3, f, seq(ticks(1, 3), prop(1), isolate(3), prop(1), xfer(1, 3), prop(1), ticks(1, 4), prop(1), heal(), prop(1), ticks(1, 1), prop(2)), k, int(BTick), 1, int(BDrop), 1, int(BDup), 1)
		tt.TickNodes = []uint8{1}
		p.dd = append(p.dd, tt)
	}
	// real aliasing between the unstable log and batches already handed out (replay-based, no clones)
	for steps := 3; steps <= 6; steps++ {
		sb := ddScn(fmt.Sprintf("stale-batch%d", steps), 3, ids(3), asyncF, scriptStaleBatchN(steps), k, int(BDrop), 1, int(BDup), 1, int(BCrash), 1)
		sb.NoClone = true
		c := asyncF.cfg()
		c.MaxSizePerMsg = 1 // one entry per append
		c.ElectionTick, c.HeartbeatTick, c.Timeout = 10, 1, 10
		sb.Cfg = []NodeCfg{c}
		p.dd = append(p.dd, sb)
	}
	return
}

// scriptStaleSelfAck: node 1 leads term 1 with a stalled append thread and appends three
// entries nobody else sees; node 2 leads term 2 and overwrites that tail with a shorter one; node 1
// is elected again for term 3 on two remote votes (its own vote waits for the disk) and appends its
// empty entry; node 3 goes quiet; only then does node 1's append thread perform the oldest write
// and release the self-acknowledgement that was attached to it in term 1.
func scriptStaleSelfAck() []Event {
	return seq(camp(1), pauseAppend(1, 1), isolate(1), prop(1), prop(1), prop(1), camp(2), prop(2), heal(), tick(2), holdFrom(3), camp(1), deliverHeld(3, 1),
		appendStep(1), prop(1), appendStep(1), appendStep(1), pauseAppend(1, 0), flush(), tick(1), prop(1))
}

// scriptQueuedVotes: node 1's append thread lags while node 1 grants its vote in two successive
// terms (each grant is a write that carries nothing but the hard state); the thread then performs
// the writes one at a time. Explored by replay (NoClone): the responses attached to a queued write
// must not share memory with later ones.
func scriptQueuedVotes() []Event {
	return seq(camp(1), prop(1), pauseAppend(1, 1), holdFrom(2), holdFrom(3), camp(2), deliverHeld(2, 1), camp(3), camp(3), deliverHeld(3, 1), deliverHeld(3, 1),
		appendStep(1), appendStep(1), appendStep(1), pauseAppend(1, 0), flush(), prop(3), prop(2))
}

func scriptStaleBatchN(steps int) []Event {
	s := seq(camp(1), pauseAppend(1, 1), prop(1), isolate(1), prop(1), prop(1), camp(2), heal(), tick(2))
	for i := 0; i < steps; i++ {
		s = append(s, appendStep(1))
	}
	return append(s, crash(1, 0), prop(2), tick(2), pauseAppend(1, 0), prop(2))
}

func poolElection(tier string) (p pool) {
	for _, f := range []feat{syncF, asyncF, pvF} {
		p.bfs = append(p.bfs, bfsDueling(f, 3, 2, 3), bfsDueling(f, 3, 2, 3, int(BDup), 1), bfsDueling(f, 3, 2, 3, int(BCrash), 1))
	}
	p.bfs = append(p.bfs, bfsCandidateCrash(asyncF), bfsCandidateCrash(syncF), bfsPrevoteCrash()) // weight raised in Jobs()
	for _, f := range []feat{syncF, pvF, asyncF} {
		p.dd = append(p.dd, ddScn("vote-only-crash", 3, ids(3), f, scriptVoteOnlyCrash(), devK(tier), defaultFaults...))
	}
	for _, f := range []feat{syncF, asyncF} {
		p.dd = append(p.dd, ddScn("two-terms-one-ready", 3, ids(3), f, scriptTwoTermsOneReady(), devK(tier), defaultFaults...))
	}
	for _, f := range []feat{syncF, asyncF, pvF} {
		p.dd = append(p.dd, ddScn("transfer-vs-election", 3, ids(3), f, scriptTransferVsElection(), devK(tier), defaultFaults...))
	}
	// a MsgTimeoutNow that arrives long after the transfer was given up: the leader has meanwhile
	// committed entries the transferee does not hold
	for _, f := range []feat{syncF, asyncF, pvF} {
		lt := tickSc("late-timeout-now", 3, f, seq(ticks(1, 3), prop(1), holdTo(1, 3), xfer(1, 3), ticks(1, 4), prop(1), prop(1), deliverHeld(1, 3), prop(1), heal(), flush(), ticks(1, 1), prop(1)), devK(tier), int(BTick), 1, int(BDrop), 1, int(BDup), 1)
		lt.TickNodes = []uint8{1}
		p.dd = append(p.dd, lt)
	}
	for _, f := range []feat{syncF, pvcqF} {
		p.dd = append(p.dd, ddScn("transfer-twice", 3, ids(3), f, scriptTransferTwice(), devK(tier), defaultFaults...),
			confSc("transfer-to-removed", f, scriptTransferToRemoved(), devK(tier), defaultFaults...))
	}
	return
}

// scriptTransferTwice: a transfer to a lagging (cut off) node stays in progress; the same
// request is repeated (ignored), a proposal is refused meanwhile, then a transfer to another
// node replaces it and completes.
func scriptTransferTwice() []Event {
	return seq(camp(1), prop(1), isolate(3), prop(1), xfer(1, 3), xfer(1, 3), prop(1), xfer(1, 2), heal(), prop(2), prop(1))
}

// scriptTransferToRemoved: the transfer target is removed by a configuration change that
// commits while the transfer is in progress (the change was proposed first; node 2's
// acknowledgements are held back until the transfer has started).
func scriptTransferToRemoved() []Event {
	return seq(camp(1), prop(1), isolate(3), prop(1), holdFrom(2), conf(1, mRemove3), xfer(1, 3), flush(), prop(1), heal(), prop(1), camp(2), prop(2))
}

// scriptTransferVsElection: the MsgTimeoutNow of a leadership transfer to node 2 is held back
// while node 3 campaigns for the next term on its own and collects the old leader's vote; the
// transferee then campaigns for the same term with the transfer context.
func scriptTransferVsElection() []Event {
	return seq(camp(1), prop(1), cut(2, 3), holdFrom(1), xfer(1, 2), camp(3), flush(), prop(3), prop(2), heal(), prop(3), prop(2))
}

// scriptTwoTermsOneReady: node 1's application is slow to call Ready while it grants a vote in
// term 1 and, before that Ready, is asked again in term 2: one Ready has to carry the promises
// of two terms (the older one still waits for the same write).
func scriptTwoTermsOneReady() []Event {
	return seq(holdFrom(2), holdFrom(3), camp(2), camp(3), camp(3), pauseReady(1, 1), deliverHeld(2, 1), deliverHeld(3, 1), deliverHeld(3, 1), pauseReady(1, 0),
		crash(1, 0), flush(), camp(2), prop(2), prop(3))
}

// scriptVoteOnlyCrash: a stale candidate and an up-to-date candidate campaign in the
// same term (the second campaign is scripted, "early" execution is a deviation); a
// voter rejects the first (adopting the term without voting), grants the second in a
// Ready that changes nothing but the vote, and crashes losing unsynced writes.
func scriptVoteOnlyCrash() []Event {
	return seq(camp(1), isolate(2), prop(1), heal(), holdFrom(2), holdFrom(3), camp(2), camp(3), flush(), crash(1, CrashLoseUnsynced), heal(), prop(3), crash(3, CrashLoseUnsynced), camp(1), prop(1))
}

// bfsCandidateCrash: node 1 campaigns (twice at most), may crash once at any point
// (in async mode: with its term and vote still in the append queue), proposes.
func bfsCandidateCrash(f feat) *Scenario {
	s := newSc("bfs/candidate-crash/"+f.tag(), 3, ids(3), f.cfg())
	s.budget(int(BCampaign), 2, int(BCrash), 1, int(BPropose), 1)
	s.CampaignNodes = []uint8{1}
	s.CrashNodes = []uint8{1}
	s.ProposeNodes = []uint8{1}
	s.CrashFlags = []int{0}
	s.MaxTerm = 2
	return s
}

// bfsPrevoteCrash: PreVote cluster; node 3 campaigns, node 1 may crash between
// persisting entries and persisting its hard state (README order) and is then
// asked for pre-votes at term 0 (reaches known finding KF-2).
func bfsPrevoteCrash() *Scenario {
	s := newSc("bfs/prevote-crash/"+pvF.tag(), 3, ids(3), pvF.cfg())
	s.budget(int(BCampaign), 2, int(BCrash), 1, int(BDup), 1)
	s.CampaignNodes = []uint8{3}
	s.CrashNodes = []uint8{1}
	s.CrashStages = []int{StageEntries}
	s.CrashFlags = []int{0}
	s.MaxTerm = 2
	return s
}

// split: the same scenario with Ready / apply / Advance as separate steps (sync) or
// with self-addressed storage responses queued (async), so that calls interleave
// with an outstanding Ready and apply lags behind commit.
func split(s *Scenario) *Scenario {
	c := *s
	if c.cfg(0).Async {
		c.LazyLocal = true
		c.Name += "/lazy-local"
	} else {
		c.SplitReady = true
		c.Name += "/split"
	}
	return &c
}

func poolSnapshot(tier string) (p pool) {
	k := devK(tier)
	fl := append([]int{int(BSnapFail), 1, int(BCompact), 1, int(BSendSnap), 1}, defaultFaults...)
	for _, f := range []feat{syncF, asyncF} {
		p.bfs = append(p.bfs, bfsSnapshot(f), bfsSnapshot(f, int(BDup), 1), bfsSnapshot(f, int(BCrash), 1), bfsSnapshot(f, int(BSendSnap), 1))
		p.dd = append(p.dd,
			ddScn("snapshot", 3, ids(3), f, scriptSnapshot(), k, fl...),
			ddScn("snapshot-restart", 3, ids(3), f, scriptSnapshotRestart(), k, fl...),
			split(ddScn("snapshot", 3, ids(3), f, scriptSnapshot(), k, fl...)),
			tickSnap(ddScn("snapshot-twice", 3, ids(3), f, scriptSnapshotTwice(), k+1, int(BDelay), 1, int(BDup), 1, int(BPause), 1)),
			tickSnap(ddScn("snapshot-divergent", 3, ids(3), f, scriptSnapshotDivergent(), k, fl...)),
			func() *Scenario {
				s := split(tickSnap(ddScn("snapshot-slow", 3, ids(3), f, scriptSnapshotTwice(), k, int(BDup), 1, int(BPause), 1, int(BDrop), 1)))
				s.SlowSnap = true
				return s
			}(),
		)
		p.bfs = append(p.bfs, bfsSnapshot(f, int(BTick), 1), bfsPagination(f, 60))
		if !f.async {
			c := f.cfg()
			c.MaxCommittedSize = 60
			pg := ddScn("pagination", 3, ids(3), f, scriptPagination(), k, int(BDrop), 1, int(BDup), 1, int(BCrash), 1)
			pg.Cfg = []NodeCfg{c}
			pg.PropSizes = []int{30, 1, 1, 1}
			p.dd = append(p.dd, pg)
		}
		{
			cb := ddScn("compact-before-send", 3, ids(3), f, scriptCompactBeforeSend(), k, int(BDrop), 1, int(BDup), 1)
			cb.NoClone = true
			p.dd = append(p.dd, cb)
		}
		if !f.async {
			c := f.cfg()
			c.MaxCommittedSize = 1
			c.ElectionTick, c.HeartbeatTick, c.Timeout = 10, 1, 10
			f8 := ddScn("snapshot-figure8", 3, ids(3), f, scriptSnapshotFigure8(), k, int(BDrop), 1, int(BDup), 1)
			f8.Cfg = []NodeCfg{c}
			p.dd = append(p.dd, f8)
		}
		if f.async {
			c := f.cfg()
			c.MaxCommittedSize = 20
			c.ElectionTick, c.HeartbeatTick, c.Timeout = 10, 1, 10
			sa := ddScn("stale-apply-ack", 3, ids(3), f, scriptStaleApplyAck(), k, int(BDrop), 1, int(BDup), 1, int(BCrash), 1)
			sa.Cfg = []NodeCfg{c}
			sa.PropSizes = []int{4, 30, 4, 4, 4, 4, 4}
			p.dd = append(p.dd, sa)
		}
		if f.async {
			p.dd = append(p.dd, ddScn("snapshot-overtakes", 3, ids(3), f, scriptSnapshotOvertakes(), k, fl...))
		}
		p.dd = append(p.dd, ddScn("manual-snapshot-divergent", 3, ids(3), f, scriptManualSnapshotDivergent(), k, fl...))
		{
			se := tickSnap(ddScn("snapshot+entries", 3, ids(3), f, scriptSnapshotPlusEntries(), k, int(BDrop), 1, int(BDup), 1, int(BCrash), 1))
			se.SlowSnap = true
			p.dd = append(p.dd, se)
			sd := tickSnap(ddScn("snapshot+entries-divergent", 3, ids(3), f, scriptSnapshotPlusEntriesDivergent(), k, int(BDrop), 1, int(BDup), 1, int(BCrash), 1))
			sd.SlowSnap = true
			p.dd = append(p.dd, sd)
		}
		for _, ff := range []feat{{async: f.async, prevote: true}, f} {
			cs := tickSnap(ddScn("candidate-snapshot", 3, ids(3), ff, scriptCandidateSnapshot(), k, int(BDrop), 1, int(BDup), 1, int(BCampaign), 1))
			cs.SlowSnap = true
			p.dd = append(p.dd, cs)
		}
		if f.async {
			p.dd = append(p.dd, tickSnap(ddScn("snapshot-term-change", 3, ids(3), f, scriptSnapshotTermChange(), k, fl...)))
		}
	}
	return
}

func poolConf(tier string) (p pool) {
	k := devK(tier)
	for _, f := range []feat{syncF, asyncF, {stepdown: true}} {
		p.dd = append(p.dd,
			confSc("learner", f, scriptLearner(), k, defaultFaults...),
			confSc("simple-conf", f, scriptSimpleConf(), k, defaultFaults...),
			confSc("joint", f, scriptJoint(), k, defaultFaults...),
			confSc("conf+failover", f, scriptConfFailover(), k, defaultFaults...),
		)
	}
	// a learner whose promotion committed without reaching it is asked for its vote (it grants: a
	// learner may already have been promoted without knowing)
	for _, f := range []feat{syncF, asyncF, asyncPvF} {
		lv := ddScn("learner-votes", 2, ids(1), f, seq(camp(1), prop(1), isolate(2), conf(1, 0), crash(1, 0), heal(), camp(1), prop(1), crash(2, 0), camp(1), prop(1)), k, defaultFaults...)
		lv.Learners = []uint64{2}
		lv.ConfMenu = []ConfSpec{{Changes: "v2"}}
		p.dd = append(p.dd, lv)
	}
	// a snapshot whose membership does not contain the recipient (the node was removed while cut off;
	// the application ships the snapshot it has) must be ignored
	for _, f := range []feat{syncF, asyncF} {
		p.dd = append(p.dd, confSc("snapshot-to-removed-node", f, seq(camp(1), prop(1), isolate(3), conf(1, mRemove3), prop(1), prop(1), compact(1, 0), heal(), sendSnap(1, 3), prop(1), sendSnap(1, 3), prop(1)), k, defaultFaults...))
	}
	// the last voter is asked to remove itself: the application cancels the committed change
	for _, f := range []feat{syncF, asyncF} {
		p.dd = append(p.dd, confSc("remove-last-voter", f, seq(camp(1), conf(1, mRemove3), prop(1), conf(1, mV1Remove2), prop(1), conf(1, mRemove1), prop(1), conf(1, mAddVoter4), prop(1)), k, defaultFaults...))
	}
	// validation of conf-change proposals disabled; the application itself proposes one change at a time
	// (only scripts whose changes stay individually applicable when they pile up: with validation off
	// the joint script would have raft apply an enter-joint change to a configuration that is already
	// joint – the application's fault – and a joint configuration has no no-op change to cancel with)
	p.dd = append(p.dd, confSc("simple-conf", feat{noccv: true}, scriptSimpleConf(), k, defaultFaults...),
		confSc("simple-conf", feat{noccv: true, async: true}, scriptSimpleConf(), k, defaultFaults...))
	p.dd = append(p.dd, removeLowersQuorumSc(k, defaultFaults...))
	for _, f := range []feat{syncF, asyncF} {
		p.dd = append(p.dd, replaceTwoSc(f, k, defaultFaults...))
		p.dd = append(p.dd, autoLeaveTransferSc(f, k, int(BTick), 1, int(BDrop), 1, int(BDup), 1))
	}
	for _, f := range []feat{asyncF, asyncPvF} {
		cl := ddScn("conf-lag", 3, ids(3), f, scriptConfLag(), k, defaultFaults...)
		cl.ConfMenu = []ConfSpec{{Changes: "l1"}, {Changes: "l2"}}
		p.dd = append(p.dd, cl)
	}
	{
		// a lagging application with PreVote: node 2's apply thread is stalled while the removal of
		// node 3 commits; node 2 is then asked to campaign (the pre-election path)
		cl := ddScn("conf-lag-prevote", 3, ids(3), asyncPvF, seq(camp(1), prop(1), pauseApply(2, 1), conf(1, 0), prop(1), isolate(1), camp(2), prop(2), camp(2), pauseApply(2, 0), prop(2), camp(2), prop(2), heal(), prop(2)), k, defaultFaults...)
		cl.ConfMenu = []ConfSpec{{Changes: "r3"}}
		p.dd = append(p.dd, cl)
	}
	for _, f := range []feat{syncF, asyncF, pvF} {
		p.dd = append(p.dd, confSc("mixed-batch", f, scriptMixedBatch(), k, defaultFaults...))
		bt := confSc("batch-then-conf", f, scriptBatchThenConf(), k, defaultFaults...)
		c := f.cfg()
		c.MaxCommittedSize = 1
		bt.Cfg = []NodeCfg{c}
		p.dd = append(p.dd, bt)
	}
	for _, f := range []feat{syncF, asyncF} {
		cb := append([]int{int(BProposeConf), 1}, defaultFaults...)
		j := confSc("joint", f, scriptJoint(), k, cb...)
		j.ConfNodes = []uint8{1}
		p.dd = append(p.dd, split(j), split(confSc("simple-conf", f, scriptSimpleConf(), k, cb...)))
	}
	for _, f := range []feat{syncF, asyncF} {
		p.bfs = append(p.bfs,
			bfsConf(f, []ConfSpec{ccAddVoter4, ccRemove3}, 2, int(BCampaign), 1),
			bfsConf(f, []ConfSpec{ccJointImpl, ccLeave}, 2, int(BCampaign), 1),
			bfsConf(f, []ConfSpec{ccJointExpl, ccLeave}, 2, int(BCrash), 1),
		)
	}
	return
}

func poolRead(tier string) (p pool) {
	k := devK(tier)
	for _, f := range []feat{syncF, asyncF, pvcqF} {
		p.dd = append(p.dd, ddScn("read", 3, ids(3), f, scriptRead(), k, append([]int{int(BRead), 1}, defaultFaults...)...))
		rc := confSc("read+conf", f, scriptReadConf(), k, append([]int{int(BRead), 1}, defaultFaults...)...)
		p.dd = append(p.dd, rc)
		one := ddScn("read-singleton", 1, ids(1), f, scriptReadSingleton(), k+1, int(BRead), 1, int(BCrash), 1, int(BPropose), 1)
		p.dd = append(p.dd, one)
		// a learner reads through a leader that is the sole voter (answered without a heartbeat round)
		ls := ddScn("read-learner-of-singleton", 2, ids(1), f, seq(camp(1), prop(1), read(2), prop(1), read(2), read(1), camp(1), read(2), prop(1), read(2)), k+1, int(BRead), 1, int(BCrash), 1, int(BDrop), 1, int(BDup), 1)
		ls.Learners = []uint64{2}
		p.dd = append(p.dd, ls)
		p.dd = append(p.dd, ddScn("read-stale-acks", 5, ids(5), f, scriptReadStaleAcks(), k, int(BRead), 1, int(BDrop), 1, int(BDup), 1))
		js := ddScn("read-joint-shrink", 3, ids(3), f, scriptReadJointShrink(), k, int(BRead), 1, int(BDrop), 1, int(BCampaign), 1, int(BDelay), 1)
		js.ConfMenu = []ConfSpec{{Transition: pb.ConfChangeTransitionJointExplicit, Changes: "r2 r3"}, {}}
		p.dd = append(p.dd, js)
		rl := ddScn("read-removed-leader", 2, ids(2), f, scriptReadRemovedLeader(), k, int(BRead), 1, int(BDrop), 1, int(BPropose), 1)
		rl.ConfMenu = []ConfSpec{{Changes: "r1"}}
		p.dd = append(p.dd, rl)
		sa := ddScn("read-stale-acks-across-conf", 4, ids(3), f, scriptReadStaleAcksAcrossConf(), k, int(BRead), 1, int(BDrop), 1, int(BDup), 1)
		sa.ConfMenu = []ConfSpec{ccAddLearner4}
		p.dd = append(p.dd, sa)
		// the leader demotes itself to a learner, leaving one voter: it keeps leading (and has a
		// progress entry) but is not the sole voter
		dl := ddScn("read-demoted-leader", 2, ids(2), f, seq(camp(1), prop(1), read(1), conf(1, 0), prop(2), read(1), isolate(1), camp(2), prop(2), read(1), heal(), read(1), read(2)), k, int(BRead), 1, int(BDrop), 1, int(BPropose), 1)
		dl.ConfMenu = []ConfSpec{{Changes: "l1"}}
		p.dd = append(p.dd, dl)
	}
	for _, f := range []feat{syncF, asyncF} {
		p.bfs = append(p.bfs, bfsRead(f, 2, int(BCampaign), 1, int(BPropose), 1), bfsRead(f, 2, int(BDrop), 1, int(BCampaign), 1))
	}
	return
}

func poolFlow(tier string) (p pool) {
	k := devK(tier)
	for _, f := range []feat{syncF, asyncF} {
		for vi, c := range []NodeCfg{
			flowCfg(f, 1, 0, 0, 0),
			flowCfg(f, 2, 40, 0, 30),
			flowCfg(f, 3, 50, 60, 10),
		} {
			s := ddScn(fmt.Sprintf("flow%d", vi), 3, ids(3), f, scriptFlow(), k, defaultFaults...)
			s.Cfg = []NodeCfg{c}
			s.PropSizes = []int{4, 12, 4, 30, 4, 4, 12, 4, 4, 30, 4, 4, 4, 4, 4}
			s.UnreachPairs = [][2]uint8{{1, 2}}
			s.Budget[BUnreach] = 1
			p.dd = append(p.dd, s)
		}
		for vi, c := range []NodeCfg{flowCfg(f, 2, 1, 0, 0), flowCfg(f, 3, 40, 60, 0)} {
			c.ElectionTick, c.HeartbeatTick, c.Timeout = 10, 1, 10
			s := ddScn(fmt.Sprintf("flow-heartbeat%d", vi), 3, ids(3), f, scriptFlowHeartbeat(), k, defaultFaults...)
			s.Cfg = []NodeCfg{c}
			s.PropSizes = []int{4, 12, 4, 30, 4, 4, 12, 4, 4}
			p.dd = append(p.dd, s)
		}
		// uncommitted-size quota with a partially committed tail
		{
			c := flowCfg(f, 8, 1<<20, 0, 40)
			s := ddScn("quota-over-credit", 3, ids(3), f, scriptQuotaOverCredit(), k, int(BDrop), 1, int(BDup), 1, int(BPropose), 1)
			s.Cfg = []NodeCfg{c}
			s.PropSizes = []int{8, 8, 8, 8, 8, 8, 8, 8, 8, 8, 8, 8, 8, 8, 8, 8}
			p.dd = append(p.dd, s)
		}
		// byte window after joining by snapshot
		{
			c := flowCfg(f, 8, 40, 40, 0)
			c.ElectionTick, c.HeartbeatTick, c.Timeout = 10, 1, 10
			s := ddScn("flow-snapshot-leader", 3, ids(3), f, scriptFlowSnapshotLeader(), k, defaultFaults...)
			s.Cfg = []NodeCfg{c}
			s.PropSizes = []int{4, 4, 4, 4, 30, 30, 30, 30, 30, 4, 4}
			p.dd = append(p.dd, s)
		}
	}
	for _, f := range []feat{syncF, asyncF} {
		for _, mi := range []int{5, 6} {
			ir := ddScn(fmt.Sprintf("inflight-ring%d", mi), 2, ids(2), f, scriptInflightRing(), k, int(BDrop), 1, int(BDup), 1)
			ir.Cfg = []NodeCfg{flowCfg(f, mi, 1, 0, 0)}
			p.dd = append(p.dd, ir)
		}
	}
	// byte window towards a peer that was added by a conf change during the current leadership
	for _, f := range []feat{syncF, asyncF} {
		c := flowCfg(f, 8, 40, 60, 0)
		s := confSc("flow-added-peer", f, seq(camp(1), prop(1), conf(1, mAddVoter4), prop(1), prop(1), isolate(4), prop(1), prop(1), prop(1), prop(1), prop(1), prop(1), heal(), prop(1)), k, defaultFaults...)
		s.Cfg = []NodeCfg{c}
		s.PropSizes = []int{4, 4, 4, 30, 30, 30, 30, 30, 30, 4, 4}
		p.dd = append(p.dd, s)
	}
	for _, f := range []feat{syncF, asyncF} {
		su := tickSnap(ddScn("snapshot-unreachable", 3, ids(3), f, scriptSnapshotUnreachable(), k, defaultFaults...))
		su.SlowSnap = true
		p.dd = append(p.dd, su)
	}
	p.bfs = append(p.bfs, bfsInflights(syncF, 5, 9), bfsInflights(syncF, 3, 6))
	// uneven entry sizes across the stable/unstable boundary of the leader's log
	{
		c := flowCfg(asyncF, 8, 40, 0, 0)
		s := ddScn("slice-gap", 3, ids(3), asyncF, scriptSliceGap(), k, defaultFaults...)
		s.Cfg = []NodeCfg{c}
		s.PropSizes = []int{4, 30, 4, 4, 4, 4}
		p.dd = append(p.dd, s)
	}
	return
}

func poolTick(tier string) (p pool) {
	k := devK(tier)
	tb := []int{int(BTick), 2, int(BDrop), 1, int(BDup), 1, int(BCampaign), 1}
	for _, f := range []feat{pvF, cqF, pvcqF, asyncPvF} {
		p.dd = append(p.dd,
			tickSc("prevote-rejoin", 3, f, scriptPrevoteRejoin(), k, tb...),
			tickSc("checkquorum-lease", 3, f, scriptCheckQuorumLease(), k, tb...),
		)
	}
	for _, f := range []feat{cqF, pvcqF} {
		// the promotion of the only learner commits at the sole voter but never reaches the learner;
		// the leader restarts and now needs the vote of a node that still believes it is a learner
		// and that heard from a leader not long ago
		lp := tickSc("learner-promotion-lost", 2, f, seq(ticks(1, 3), prop(1), roundTicks(2, 1), isolate(2), conf(1, 0), crash(1, 0), heal(), ticks(2, 1)), k, int(BTick), 2, int(BDrop), 1)
		lp.Voters, lp.Learners = []uint64{1}, []uint64{2}
		lp.ConfMenu = []ConfSpec{{Changes: "v2"}}
		p.dd = append(p.dd, lp)
	}
	for _, f := range []feat{cqF, pvcqF} {
		p.dd = append(p.dd, tickSc("late-same-term-vote", 5, f, scriptLateSameTermVote(), k, tb...))
	}
	for _, f := range []feat{cqF, pvcqF} {
		p.dd = append(p.dd, tickSc("checkquorum-reports", 3, f, scriptCheckQuorumReports(), k, tb...))
	}
	for _, f := range []feat{cqF, pvcqF} {
		// leadership transfers requested at a CheckQuorum leader, first while it is connected, then
		// while it is cut off (each request it acts on restarts its CheckQuorum period: known finding KF-3)
		ct := tickSc("checkquorum-transfer", 3, f, scriptCheckQuorumTransfer(), k, int(BTick), 2, int(BDrop), 1, int(BTransfer), 1)
		ct.TransferPairs = [][2]uint8{{1, 2}, {1, 3}}
		p.dd = append(p.dd, ct)
	}
	for _, f := range []feat{cqF, pvcqF} {
		sp := tickSc("checkquorum-snapshot-peer", 3, f, scriptCheckQuorumSnapshotPeer(), k, tb...)
		sp.SlowSnap = true
		p.dd = append(p.dd, sp)
	}
	for _, f := range []feat{cqF, pvcqF} {
		sl := tickSc("snap-lease", 3, f, scriptSnapLease(), k, tb...)
		sl.SlowSnap = true
		p.dd = append(p.dd, sl)
	}
	for _, f := range []feat{cqF, pvcqF} {
		s := ddScn("joint-checkquorum", 5, ids(3), f, scriptJointCheckQuorum(), k, int(BTick), 2, int(BDrop), 1)
		s.Cfg = tickCfgs(f, 5)
		s.ConfMenu = []ConfSpec{{Transition: pb.ConfChangeTransitionJointExplicit, Changes: "v4 v5 r2 r3"}}
		s.TickNodes = []uint8{1}
		p.dd = append(p.dd, s)
	}
	return
}

// bfsAPIOrder: every local operation of the alphabet once, in every order and
// interleaved with message delivery, from a given root (C14: no call order a
// contract-respecting application can produce may trip an assertion).
func bfsAPIOrder(name string, f feat, n int, voters []uint64, prefix []Event, menu []ConfSpec) *Scenario {
	s := newSc("bfs/api-order/"+name+"/"+f.tag(), n, voters, f.cfg())
	s.Prefix = prefix
	s.budget(int(BTick), 1, int(BCampaign), 1, int(BPropose), 1, int(BRead), 1, int(BTransfer), 1, int(BForget), 1, int(BUnreach), 1, int(BCompact), 1, int(BSnapFail), 1)
	if len(menu) > 0 {
		s.ConfMenu = menu
		s.Budget[BProposeConf] = 1
	}
	s.TransferPairs = [][2]uint8{{1, 2}, {2, 1}, {1, 1}}
	s.UnreachPairs = [][2]uint8{{1, 2}}
	s.PropBatch = []int{2}
	s.MaxTerm = 3
	return s
}

func poolAPI(tier string) (p pool) {
	for _, f := range []feat{syncF, asyncF, pvcqF} {
		p.bfs = append(p.bfs,
			bfsAPIOrder("fresh", f, 3, ids(3), nil, nil),
			bfsAPIOrder("leader", f, 3, ids(3), []Event{camp(1), prop(1)}, []ConfSpec{ccJointExpl, ccLeave}),
			bfsAPIOrder("singleton", f, 1, ids(1), nil, nil),
			bfsAPIOrder("joint", f, 4, ids(3), []Event{camp(1), conf(1, 0)}, []ConfSpec{ccJointExpl, ccLeave, ccAddLearner4}),
			bfsAPIOrder("learner", f, 4, ids(3), []Event{camp(1), conf(1, 2), prop(1)}, []ConfSpec{ccJointExpl, ccLeave, ccAddLearner4}),
			bfsAPIOrder("snapshot-pending", f, 3, ids(3), []Event{camp(1), prop(1), isolate(3), prop(1), prop(1), compact(1, 0), heal()}, nil),
		)
	}
	return
}

func poolAll(tier string) (p pool) {
	p.add(poolSafety(tier))
	p.add(poolElection(tier))
	p.add(poolSnapshot(tier))
	p.add(poolConf(tier))
	p.add(poolRead(tier))
	p.add(poolFlow(tier))
	p.add(poolTick(tier))
	return
}

var allMonitors = []string{"C01", "C02", "C03", "C04", "C05", "C06", "C07", "C08", "C09", "C10", "C11", "C14", "C16", "C17", "C20"}

// Jobs returns the deterministic job list of a property and tier.
func Jobs(prop, tier string) []*Job {
	var jobs []*Job
	add := func(p pool, mons ...string) {
		for _, sc := range p.bfs {
			jobs = append(jobs, job(prop, tier, "bfs", sc, 2, mons...))
		}
		for _, sc := range p.dd {
			jobs = append(jobs, job(prop, tier, "ddfs", sc, 1, mons...))
		}
	}
	// the channel front end (node.go): conformance of raft.Node with RawNode
	addNode := func() {
		for _, sp := range nodexspec.Specs(tier) {
			jobs = append(jobs, &Job{Prop: prop, Tier: tier, Name: sp.Name, Strategy: "nodex", Node: sp, Weight: 1, MinSeconds: 12})
		}
	}
	switch prop {
	case "ALL":
		add(poolAll(tier), allMonitors...)
	case "APIALL": // development aid: every monitor over the API-order scenarios
		add(poolAPI(tier), allMonitors...)
	case "C01":
		add(poolSafety(tier), prop)
		add(poolSnapshot(tier), prop)
		add(pool{dd: poolConf(tier).dd}, prop)
	case "C02":
		add(poolElection(tier), prop)
		add(pool{dd: poolSafety(tier).dd}, prop)
		add(pool{dd: poolConf(tier).dd}, prop)
	case "C03":
		add(poolSafety(tier), prop)
		add(poolSnapshot(tier), prop)
		add(poolFlow(tier), prop)
	case "C04":
		add(poolSafety(tier), prop)
		add(poolConf(tier), prop)
	case "C05":
		crashOnly := func(p pool) (o pool) {
			for _, s := range p.bfs {
				if s.Budget[BCrash] > 0 {
					o.bfs = append(o.bfs, s)
				}
			}
			for _, s := range p.dd {
				if s.Budget[BCrash] > 0 {
					o.dd = append(o.dd, s)
				}
			}
			return
		}
		ms := []string{"C05", "C05/C01", "C05/C02", "C05/C03", "C05/C04", "C05/C06"}
		add(crashOnly(poolSafety(tier)), ms...)
		add(crashOnly(poolElection(tier)), ms...)
		add(crashOnly(poolSnapshot(tier)), ms...)
		addNode()
	case "C06":
		add(poolSafety(tier), prop)
		add(poolConf(tier), prop)
		add(poolSnapshot(tier), prop)
	case "C07":
		add(poolElection(tier), prop)
		add(poolSafety(tier), prop)
		add(pool{dd: poolSnapshot(tier).dd}, prop)
	case "C08":
		add(poolSnapshot(tier), prop)
		add(poolFlow(tier), prop)
		add(pool{dd: poolSafety(tier).dd}, prop)
	case "C09":
		add(poolSnapshot(tier), prop)
		add(pool{dd: poolConf(tier).dd}, prop) // snapshots that carry membership changes
	case "C10":
		add(poolConf(tier), prop)
		addNode()
	case "C11":
		add(poolRead(tier), prop)
	case "C14":
		add(poolAll(tier), prop)
		add(poolAPI(tier), prop)
	case "C15":
		// bounded convergence suffix from every state of the small BFS scenarios and
		// from every end state of the scripted executions
		var p pool
		for _, f := range []feat{syncF, asyncF, pvcqF} {
			p.bfs = append(p.bfs, bfsElectProp(f), bfsFailover(f), bfsSnapshot(f))
		}
		p.bfs = append(p.bfs, bfsConf(syncF, []ConfSpec{ccJointImpl, ccLeave}, 1, int(BCampaign), 1), bfsConf(syncF, []ConfSpec{ccAddVoter4, ccRemove3}, 1, int(BCampaign), 1))
		p.dd = poolAll(tier).dd
		n0 := len(jobs)
		add(p)
		for _, j := range jobs[n0:] {
			j.Suffix = true
		}
	case "C19":
		// determinism: every state is computed incrementally and again from scratch;
		// every job is run in two separate processes whose digests must agree. Jobs are
		// bounded by state caps (not by deadlines) so that both runs cover the same space.
		var p pool
		capN := 5000
		if tier == "thorough" {
			capN = 60000
		}
		for _, f := range []feat{syncF, asyncF} {
			p.bfs = append(p.bfs, bfsElectProp(f, int(BDup), 1), bfsFailover(f, int(BCrash), 1), bfsSnapshot(f))
		}
		p.bfs = append(p.bfs, bfsRead(pvcqF, 2, int(BCampaign), 1, int(BPropose), 1), bfsConf(syncF, []ConfSpec{ccJointImpl, ccLeave}, 2, int(BCampaign), 1),
			bfsConf(asyncF, []ConfSpec{ccAddVoter4, ccRemove3}, 2, int(BCampaign), 1), bfsDueling(pvF, 3, 2, 3, int(BDup), 1))
		k := 0
		if tier == "thorough" {
			k = 1
		}
		fl := append([]int{int(BSnapFail), 1, int(BCompact), 1, int(BRead), 1}, defaultFaults...)
		p.dd = append(p.dd,
			ddScn("failover", 3, ids(3), syncF, scriptFailover(), k+1, fl...), ddScn("figure8", 3, ids(3), asyncF, scriptFigure8(), k+1, fl...),
			ddScn("snapshot", 3, ids(3), syncF, scriptSnapshot(), k, fl...), ddScn("snapshot-restart", 3, ids(3), asyncF, scriptSnapshotRestart(), k, fl...),
			confSc("learner", syncF, scriptLearner(), k, fl...), confSc("joint", asyncF, scriptJoint(), k, fl...), confSc("conf+failover", feat{stepdown: true}, scriptConfFailover(), k, fl...),
			replaceTwoSc(syncF, k, fl...), replaceTwoSc(pvcqF, k, fl...), removeLowersQuorumSc(k, fl...),
			ddScn("read", 3, ids(3), pvcqF, scriptRead(), k+1, fl...),
			tickSc("prevote-rejoin", 3, pvcqF, scriptPrevoteRejoin(), k, int(BTick), 2, int(BDrop), 1),
			tickSc("checkquorum-lease", 3, cqF, scriptCheckQuorumLease(), k, int(BTick), 2, int(BDrop), 1),
		)
		// many peers: beyond the on-stack fast paths for peer iteration and quorum arithmetic
		p.dd = append(p.dd, ddScn("basic9", 9, ids(9), syncF, scriptBasic(), k, int(BDrop), 1),
			func() *Scenario {
				s := ddScn("basic5+4learners", 9, ids(5), asyncF, scriptBasic(), k, int(BDrop), 1)
				s.Learners = []uint64{6, 7, 8, 9}
				return s
			}())
		for _, sc := range p.bfs {
			sc.MaxStates = capN
		}
		for _, sc := range append(append([]*Scenario(nil), p.bfs...), p.dd...) {
			sc.TrackOut = true
		}
		add(p)
		// second copy of every job: same scenario, separate process
		n0 := len(jobs)
		for _, j := range jobs[:n0] {
			c := *j
			c.Name += "#2"
			jobs = append(jobs, &c)
		}
	case "C16":
		add(poolFlow(tier), prop)
		add(pool{dd: poolSnapshot(tier).dd}, prop)
	case "C17":
		add(poolTick(tier), prop)
		add(pool{bfs: poolElection(tier).bfs}, prop)
	case "C20":
		add(poolSafety(tier), prop)
		add(poolFlow(tier), prop)
		add(pool{dd: poolConf(tier).dd}, prop)
		addNode()
	}
	// thorough tier: the API-order scenarios (every local operation once, in every order,
	// interleaved with deliveries, from six roots) are explored under the property's own monitors too
	if tier == "thorough" && len(jobs) > 0 {
		switch prop {
		case "C01", "C02", "C03", "C04", "C05", "C06", "C07", "C08", "C09", "C10", "C11", "C16", "C17", "C20":
			var mons []string
			for _, j := range jobs {
				if j.Strategy != "nodex" {
					mons = j.Mons
					break
				}
			}
			for _, sc := range poolAPI(tier).bfs {
				jobs = append(jobs, job(prop, tier, "bfs", sc, 1, mons...))
			}
		}
	}
	// thorough tier: every scripted scenario that runs without PreVote is run with PreVote as well
	// (elections then go through the pre-election path)
	if tier == "thorough" && prop != "C19" {
		n0 := len(jobs)
		for _, j := range jobs[:n0] {
			if j.Strategy != "ddfs" || j.Sc.cfg(0).PreVote || j.Sc.NoClone {
				continue
			}
			sc := *j.Sc
			sc.Cfg = append([]NodeCfg(nil), j.Sc.Cfg...)
			for k := range sc.Cfg {
				sc.Cfg[k].PreVote = true
			}
			sc.Name = j.Sc.Name + "+prevote"
			nj := *j
			nj.Sc, nj.Name = &sc, sc.Name
			jobs = append(jobs, &nj)
		}
	}
	for i, j := range jobs {
		j.Index = i
		if strings.Contains(j.Name, "candidate-crash") || strings.Contains(j.Name, "pagination") || strings.Contains(j.Name, "prevote-crash") {
			j.Weight = 5
			j.MinSeconds = 20
		}
	}
	return jobs
}

var _ = pb.ConfChangeTransitionAuto
