package mc

import (
	"testing"
)

func benchWorld() (*Scenario, MonitorFactory, *World) {
	sc := &Scenario{Name: "b", N: 3, Cfg: []NodeCfg{DefaultNodeCfg()}, Voters: []uint64{1, 2, 3}}
	sc.Budget[BCampaign] = 1
	sc.Budget[BPropose] = 1
	mf := func() []Monitor { return []Monitor{NewMonC01(), NewMonC03()} }
	w := NewWorld(sc, mf())
	w.Apply(Event{Kind: EvCampaign, Node: 1})
	for i := 0; i < 12; i++ {
		ev, ok := w.defaultChoice()
		if !ok {
			break
		}
		w.Apply(ev)
	}
	return sc, mf, w
}

func BenchmarkClone(b *testing.B) {
	_, _, w := benchWorld()
	for i := 0; i < b.N; i++ {
		w.Clone()
	}
}

func BenchmarkKey(b *testing.B) {
	_, _, w := benchWorld()
	for i := 0; i < b.N; i++ {
		w.Key(false)
	}
}

func BenchmarkCloneApplyKey(b *testing.B) {
	_, _, w := benchWorld()
	ev, _ := w.defaultChoice()
	for i := 0; i < b.N; i++ {
		c := w.Clone()
		c.Apply(ev)
		c.Key(false)
	}
}
