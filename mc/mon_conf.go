package mc

import (
	"fmt"

	"google.golang.org/protobuf/proto"

	"go.etcd.io/raft/v3"
	pb "go.etcd.io/raft/v3/raftpb"
	"verif/refmodel"
)

func protoUnmarshal(b []byte, m proto.Message) error { return proto.Unmarshal(b, m) }

func isConf(e *pb.Entry) bool {
	return e.GetType() == pb.EntryConfChange || e.GetType() == pb.EntryConfChangeV2
}

// MonC10 checks that every node derives its configurations by folding the
// committed configuration changes in log order, that leaders serialize changes,
// that nobody campaigns over a committed-but-unapplied change, and that joint
// configurations need both majorities (via the C02/C06 oracles while joint).
type MonC10 struct {
	cl     *committedLog
	fold   *confFold
	c02    *MonC02
	c06    *MonC06
	shared bool
}

func NewMonC10() *MonC10 { return &MonC10{} }
func (m *MonC10) Prop() string { return "C10" }
func (m *MonC10) Init(w *World) {
	m.cl = newCommittedLog()
	m.fold = newConfFold(w.Sc)
	m.c02, m.c06 = NewMonC02(), NewMonC06()
	m.c02.Init(w)
	m.c06.Init(w)
}
func (m *MonC10) Clone() Monitor {
	m.shared = true
	c := *m
	c.c02 = m.c02.Clone().(*MonC02)
	c.c06 = m.c06.Clone().(*MonC06)
	return &c
}
func (m *MonC10) own() {
	if m.shared {
		m.cl, m.fold, m.shared = m.cl.clone(), m.fold.clone(), false
	}
}
func (m *MonC10) History(b []byte) []byte {
	b = m.cl.history(b)
	b = m.fold.history(b)
	b = m.c02.History(b)
	return m.c06.History(b)
}

func (m *MonC10) OnEvent(w *World, rec *StepRec) []*Violation {
	var out []*Violation
	// joint-majority oracles (only while the acting node's configuration is joint)
	for _, v := range append(m.c02.OnEvent(w, rec), m.c06.OnEvent(w, rec)...) {
		if rec.Node < 0 {
			continue
		}
		joint := len(w.Nodes[rec.Node].vs().Voters[1]) > 0 || (rec.Pre != nil && len(rec.Pre.Voters[1]) > 0)
		if joint && (v.Oracle == "leader-needs-joint-majority" || v.Oracle == "commit-quorum-durable") {
			out = append(out, &Violation{"C10", "joint-" + v.Oracle, v.Detail})
		}
	}
	if rec.Node < 0 || w.Dead {
		return out
	}
	i := rec.Node
	n := w.Nodes[i]
	pre, post := rec.Pre, n.vs()
	log := w.Log(i)
	if post.Committed > m.cl.maxIdx {
		m.own()
		for _, e := range m.cl.observe(w, i) {
			if isConf(e) {
				if msg := m.fold.fold(e); msg != "" && !n.Cfg.DisableCCValidation {
					out = append(out, &Violation{"C10", "committed-change-valid", msg})
				}
			}
		}
	}
	// (1) every applied change yields the reference configuration
	for _, ca := range rec.ConfApplied {
		if !m.fold.has(ca.Index) {
			// applied before this monitor saw it committed: cannot happen (applied <= committed)
			out = append(out, &Violation{"C10", "applied-is-committed", fmt.Sprintf("node %d applied a configuration change at %d that no node has committed", n.ID, ca.Index)})
			continue
		}
		want, got := m.fold.upTo(ca.Index), confOfCS(ca.CS)
		if !got.Equal(want) {
			out = append(out, &Violation{"C10", "config-is-fold-of-committed-changes", fmt.Sprintf("node %d after applying index %d uses %s; folding the committed changes gives %s", n.ID, ca.Index, got, want)})
		}
	}
	// configuration after a snapshot install / restart is the fold up to the snapshot index
	if rec.Restarted || (post.UnstableSnapshot != nil && (pre.UnstableSnapshot == nil || pre.UnstableSnapshot.GetMetadata().GetIndex() != post.UnstableSnapshot.GetMetadata().GetIndex())) {
		var idx uint64
		if post.UnstableSnapshot != nil {
			idx = post.UnstableSnapshot.GetMetadata().GetIndex()
		} else {
			idx = w.DiskSnap(i).GetMetadata().GetIndex()
		}
		if idx >= InitIndex && idx <= m.cl.maxIdx {
			if want, got := m.fold.upTo(idx), confOfState(post); !got.Equal(want) {
				out = append(out, &Violation{"C10", "config-is-fold-of-committed-changes", fmt.Sprintf("node %d restored at index %d uses %s; folding the committed changes gives %s", n.ID, idx, got, want)})
			}
		}
	}
	// (2) a leader never appends a second change while an earlier one may be unapplied
	if post.State == raft.StateLeader && post.LastIndex > pre.LastIndex && !n.Cfg.DisableCCValidation && !rec.Restarted {
		for j := pre.LastIndex + 1; j <= post.LastIndex; j++ {
			e := log.Entry(j)
			if e == nil || !isConf(e) || e.GetTerm() != post.Term {
				continue
			}
			for k := post.Applied + 1; k < j; k++ {
				if o := log.Entry(k); o != nil && isConf(o) {
					out = append(out, &Violation{"C10", "one-change-at-a-time", fmt.Sprintf("leader %d appended configuration change at %d while the change at %d is not applied (applied=%d)", n.ID, j, k, post.Applied)})
					break
				}
			}
		}
	}
	// (3) nobody starts campaigning over a committed but unapplied change
	startsCampaign := (post.State == raft.StateCandidate || post.State == raft.StatePreCandidate) &&
		(pre.State != post.State || pre.Term != post.Term) &&
		!(pre.State == raft.StatePreCandidate && post.State == raft.StateCandidate) && !rec.Restarted
	if startsCampaign && rec.PreLog != nil {
		for k := pre.Applied + 1; k <= pre.Committed; k++ {
			if o := rec.PreLog.Entry(k); o != nil && isConf(o) {
				out = append(out, &Violation{"C10", "no-campaign-over-unapplied-change", fmt.Sprintf("node %d started campaigning (term %d) with a committed configuration change at %d not yet applied (applied=%d, commit=%d)", n.ID, post.Term, k, pre.Applied, pre.Committed)})
				break
			}
		}
	}
	return out
}

var _ = refmodel.AddVoter

// AutoLeaveEndCheck is evaluated on the quiescent end state of a scripted
// execution (C10: a leader leaves an auto-leave joint configuration by itself once
// it has applied it). Nothing is pending, nothing is cut off: a leader that still
// sits in a joint auto-leave configuration with everything applied has not
// proposed the leave.
func AutoLeaveEndCheck(w *World) []*Violation {
	if w.Dead {
		return nil
	}
	for i := range w.Blocked {
		for j := range w.Blocked[i] {
			if w.Blocked[i][j] {
				return nil
			}
		}
	}
	for _, n := range w.Nodes {
		if n.Stopped || n.ApplyPaused || n.AppendPaused || n.ReadyPaused {
			return nil
		}
	}
	for _, n := range w.Nodes {
		vs := n.vs()
		if vs.State != raft.StateLeader || len(vs.Voters[1]) == 0 || !vs.AutoLeave {
			continue
		}
		if vs.Applied == vs.Committed && vs.Committed == vs.LastIndex && vs.LeadTransferee == 0 {
			return []*Violation{{"C10", "auto-leave", fmt.Sprintf("leader %d has applied everything (index %d) but still sits in the joint auto-leave configuration %v without having proposed to leave it", n.ID, vs.Applied, vs.Voters)}}
		}
	}
	return nil
}
