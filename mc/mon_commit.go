package mc

import (
	"encoding/binary"
	"fmt"
	"sort"

	"go.etcd.io/raft/v3"
	pb "go.etcd.io/raft/v3/raftpb"
	"verif/refmodel"
)

type committedRec struct {
	e          *pb.Entry
	commitTerm uint64
}

func cloneCommitted(m map[uint64]*committedRec) map[uint64]*committedRec {
	c := make(map[uint64]*committedRec, len(m))
	for k, v := range m {
		c[k] = v
	}
	return c
}

func histEntries(b []byte, m map[uint64]*committedRec) []byte {
	idx := make([]uint64, 0, len(m))
	for i := range m {
		idx = append(idx, i)
	}
	sort.Slice(idx, func(a, c int) bool { return idx[a] < idx[c] })
	for _, i := range idx {
		r := m[i]
		b = binary.AppendUvarint(b, i)
		b = binary.AppendUvarint(b, r.e.GetTerm())
		b = binary.AppendUvarint(b, uint64(r.e.GetType()))
		b = binary.AppendUvarint(b, uint64(len(r.e.GetData())))
		b = append(b, r.e.GetData()...)
		b = binary.AppendUvarint(b, r.commitTerm)
	}
	return b
}

// ---------------------------------------------------------------- C04

// MonC04 checks leader completeness: a node that becomes leader of T holds every
// entry committed under an earlier term, and no append/snapshot from a sender of
// term T' removes such an entry (committed under a term < T') from a receiver.
type MonC04 struct {
	committed map[uint64]*committedRec
	maxIdx    uint64
	shared    bool
}

func NewMonC04() *MonC04 { return &MonC04{} }
func (m *MonC04) Prop() string { return "C04" }
func (m *MonC04) Init(w *World) { m.committed, m.maxIdx = map[uint64]*committedRec{}, InitIndex }
func (m *MonC04) History(b []byte) []byte { return histEntries(b, m.committed) }
func (m *MonC04) Clone() Monitor {
	m.shared = true
	c := *m
	return &c
}

// holds reports whether log l holds the recorded entry at idx (or covers it by its snapshot base).
func holds(l *LogView, idx uint64, e *pb.Entry) (ok bool, covered bool) {
	if idx < l.BaseIndex {
		return true, true
	}
	t, known := l.Term(idx)
	if !known {
		return false, false
	}
	return t == e.GetTerm(), idx == l.BaseIndex
}

func (m *MonC04) OnEvent(w *World, rec *StepRec) []*Violation {
	if rec.Node < 0 || w.Dead {
		return nil
	}
	var out []*Violation
	n := w.Nodes[rec.Node]
	pre, post := rec.Pre, n.vs()
	log := w.Log(rec.Node)
	// (2) appends and snapshots never remove an entry committed under an earlier term
	if d := rec.Delivered; d != nil && (d.GetType() == pb.MsgApp || d.GetType() == pb.MsgSnap) && rec.PreLog != nil {
		for idx, r := range m.committed {
			if r.commitTerm >= d.GetTerm() {
				continue
			}
			had, _ := holds(rec.PreLog, idx, r.e)
			if idx < rec.PreLog.BaseIndex || !had {
				continue
			}
			if ok, _ := holds(log, idx, r.e); !ok {
				t, _ := log.Term(idx)
				out = append(out, &Violation{"C04", "no-overwrite-of-committed", fmt.Sprintf("%s from %d (term %d) made node %d lose entry %s committed in term %d (now term %d at that index, last index %d)",
					d.GetType(), d.GetFrom(), d.GetTerm(), n.ID, entStr(r.e), r.commitTerm, t, log.Last())})
				break
			}
		}
	}
	// (1) a new leader holds everything committed in earlier terms
	if post.State == raft.StateLeader && !(pre.State == raft.StateLeader && pre.Term == post.Term) {
		idxs := make([]uint64, 0, len(m.committed))
		for idx := range m.committed {
			idxs = append(idxs, idx)
		}
		sort.Slice(idxs, func(a, b int) bool { return idxs[a] < idxs[b] })
		for _, idx := range idxs {
			r := m.committed[idx]
			if r.commitTerm >= post.Term {
				continue
			}
			if ok, _ := holds(log, idx, r.e); !ok {
				t, known := log.Term(idx)
				out = append(out, &Violation{"C04", "leader-completeness", fmt.Sprintf("node %d became leader of term %d without entry %s committed in term %d (its log: term %d known=%v at that index, last index %d)",
					n.ID, post.Term, entStr(r.e), r.commitTerm, t, known, log.Last())})
				break
			}
		}
	}
	// record newly committed entries (first time any node's commit index covers them)
	if post.Committed > m.maxIdx {
		if m.shared {
			m.committed, m.shared = cloneCommitted(m.committed), false
		}
		for idx := m.maxIdx + 1; idx <= post.Committed; idx++ {
			if e := log.Entry(idx); e != nil {
				m.committed[idx] = &committedRec{e: e, commitTerm: post.Term}
			}
		}
		m.maxIdx = post.Committed
	}
	return out
}

// ---------------------------------------------------------------- C06

// MonC06 checks that a leader's commit advance is backed by durable identical
// copies on a joint majority and carries the leader's term, that commit never
// exceeds the log, and that followers only adopt what some leader committed.
type MonC06 struct {
	leaderCommitted map[uint64]*committedRec
	maxIdx          uint64
	shared          bool
}

func NewMonC06() *MonC06 { return &MonC06{} }
func (m *MonC06) Prop() string { return "C06" }
func (m *MonC06) Init(w *World) { m.leaderCommitted, m.maxIdx = map[uint64]*committedRec{}, InitIndex }
func (m *MonC06) History(b []byte) []byte { return histEntries(b, m.leaderCommitted) }
func (m *MonC06) Clone() Monitor {
	m.shared = true
	c := *m
	return &c
}

// diskHolds reports whether node j's stable storage holds exactly e at its index
// (or covers the index by its snapshot).
func diskHolds(w *World, j int, e *pb.Entry) bool {
	dv := diskView(w.Nodes[j].Disk)
	idx := e.GetIndex()
	if idx < dv.BaseIndex {
		return true
	}
	if idx == dv.BaseIndex {
		return dv.BaseTerm == e.GetTerm()
	}
	de := dv.Entry(idx)
	return de != nil && entEqual(de, e)
}

func (m *MonC06) OnEvent(w *World, rec *StepRec) []*Violation {
	if rec.Node < 0 || w.Dead {
		return nil
	}
	var out []*Violation
	n := w.Nodes[rec.Node]
	pre, post := rec.Pre, n.vs()
	log := w.Log(rec.Node)
	if post.Committed > post.LastIndex || post.Committed > log.Last() {
		out = append(out, &Violation{"C06", "commit-within-log", fmt.Sprintf("node %d has commit %d beyond its last index %d", n.ID, post.Committed, log.Last())})
		return out
	}
	if post.Committed <= pre.Committed || rec.Restarted {
		if rec.Restarted {
			// a restart continues from the persisted commit index; nothing new is adopted
			if post.Committed > m.maxIdx && post.Committed > 0 {
				out = append(out, &Violation{"C06", "follower-commit-bounded", fmt.Sprintf("node %d restarted with commit %d which no leader ever committed (max %d)", n.ID, post.Committed, m.maxIdx)})
			}
		}
		return out
	}
	leaderAdvance := pre.State == raft.StateLeader && post.State == raft.StateLeader && pre.Term == post.Term
	if leaderAdvance {
		c := post.Committed
		if t, _ := log.Term(c); t != post.Term {
			out = append(out, &Violation{"C06", "commit-current-term", fmt.Sprintf("leader %d of term %d advanced its commit index to %d whose entry has term %d", n.ID, post.Term, c, t)})
		}
		for idx := pre.Committed + 1; idx <= c; idx++ {
			e := log.Entry(idx)
			if e == nil {
				continue // below the leader's own snapshot: committed long ago
			}
			yes := func(id uint64) bool {
				if id == 0 || int(id) > len(w.Nodes) {
					return false
				}
				return diskHolds(w, int(id-1), e)
			}
			if !refmodel.JointMajority(post.Voters, yes) {
				var have []uint64
				for j := range w.Nodes {
					if diskHolds(w, j, e) {
						have = append(have, uint64(j+1))
					}
				}
				out = append(out, &Violation{"C06", "commit-quorum-durable", fmt.Sprintf("leader %d (term %d) committed %s but only nodes %v hold it on stable storage; voters %v", n.ID, post.Term, entStr(e), have, post.Voters)})
				break
			}
			if old, ok := m.leaderCommitted[idx]; ok {
				if !entEqual(old.e, e) {
					out = append(out, &Violation{"C06", "leaders-agree", fmt.Sprintf("leader %d committed %s where an earlier leader committed %s", n.ID, entStr(e), entStr(old.e))})
				}
			} else {
				if m.shared {
					m.leaderCommitted, m.shared = cloneCommitted(m.leaderCommitted), false
				}
				m.leaderCommitted[idx] = &committedRec{e: e, commitTerm: post.Term}
			}
		}
		if c > m.maxIdx {
			m.maxIdx = c
		}
		return out
	}
	// a non-leader adopted a higher commit index
	if post.Committed > m.maxIdx {
		out = append(out, &Violation{"C06", "follower-commit-bounded", fmt.Sprintf("node %d adopted commit index %d but leaders have committed only up to %d", n.ID, post.Committed, m.maxIdx)})
		return out
	}
	for idx := pre.Committed + 1; idx <= post.Committed; idx++ {
		e := log.Entry(idx)
		old := m.leaderCommitted[idx]
		if e == nil || old == nil {
			// under the node's snapshot, or committed by a leader whose log had it compacted
			if t, known := log.Term(idx); known && old != nil && t != old.e.GetTerm() {
				out = append(out, &Violation{"C06", "follower-commit-matches-leader", fmt.Sprintf("node %d adopted commit %d with term %d there, the leader committed %s", n.ID, idx, t, entStr(old.e))})
				break
			}
			continue
		}
		if !entEqual(e, old.e) {
			out = append(out, &Violation{"C06", "follower-commit-matches-leader", fmt.Sprintf("node %d adopted commit index %d holding %s, but the leader committed %s", n.ID, idx, entStr(e), entStr(old.e))})
			break
		}
	}
	return out
}

// ---------------------------------------------------------------- C05

// MonC05 checks that every promise-carrying message is released only after the
// promised state is on the sender's stable storage.
type MonC05 struct{}

func NewMonC05() *MonC05                 { return &MonC05{} }
func (m *MonC05) Prop() string          { return "C05" }
func (m *MonC05) Init(w *World)         {}
func (m *MonC05) History(b []byte) []byte { return b }
func (m *MonC05) Clone() Monitor          { return m }

func (m *MonC05) OnEvent(w *World, rec *StepRec) []*Violation {
	if rec.Node < 0 || w.Dead || len(rec.Released)+len(rec.Blocked) == 0 {
		return nil
	}
	var out []*Violation
	i := rec.Node
	n := w.Nodes[i]
	if rec.Crashed {
		return nil // messages released before the crash were checked against the disk of that moment below
	}
	// term and vote must be *durable*: a hard-state write the contract did not require to
	// be synced (MustSync=false, or an async append without responses) does not count
	hs := n.SyncedHS
	if hs == nil {
		hs = &pb.HardState{}
	}
	dv := diskView(n.Disk)
	check := func(msg *pb.Message) {
		if msg.GetFrom() != n.ID {
			return
		}
		switch msg.GetType() {
		case pb.MsgVoteResp:
			if !msg.GetReject() {
				if !(hs.GetTerm() > msg.GetTerm() || (hs.GetTerm() == msg.GetTerm() && hs.GetVote() == msg.GetTo())) {
					out = append(out, &Violation{"C05", "vote-durable-before-visible", fmt.Sprintf("node %d released a vote for %d in term %d while its disk says %s", n.ID, msg.GetTo(), msg.GetTerm(), hsStr(hs))})
				}
			} else if hs.GetTerm() < msg.GetTerm() {
				out = append(out, &Violation{"C05", "term-durable-before-visible", fmt.Sprintf("node %d released %s at term %d while its disk says %s", n.ID, msg.GetType(), msg.GetTerm(), hsStr(hs))})
			}
		case pb.MsgPreVoteResp:
			if msg.GetReject() && hs.GetTerm() < msg.GetTerm() {
				out = append(out, &Violation{"C05", "term-durable-before-visible", fmt.Sprintf("node %d released %s at term %d while its disk says %s", n.ID, msg.GetType(), msg.GetTerm(), hsStr(hs))})
			}
		case pb.MsgAppResp:
			if hs.GetTerm() < msg.GetTerm() {
				out = append(out, &Violation{"C05", "term-durable-before-visible", fmt.Sprintf("node %d released %s at term %d while its disk says %s", n.ID, msg.GetType(), msg.GetTerm(), hsStr(hs))})
				return
			}
			if msg.GetReject() {
				return
			}
			idx := msg.GetIndex()
			if idx > dv.Last() {
				out = append(out, &Violation{"C05", "append-durable-before-visible", fmt.Sprintf("node %d acknowledged index %d (term %d) but its stable log ends at %d", n.ID, idx, msg.GetTerm(), dv.Last())})
				return
			}
			if n.vs().Term == msg.GetTerm() {
				// same term: the acknowledged prefix cannot have been rewritten since; disk must equal the logical log
				lg := w.Log(i)
				for j := idx; j > dv.BaseIndex && j > lg.BaseIndex; j-- {
					td, _ := dv.Term(j)
					tl, ok := lg.Term(j)
					if ok && td != tl {
						out = append(out, &Violation{"C05", "append-durable-before-visible", fmt.Sprintf("node %d acknowledged index %d (term %d) but at index %d its disk holds term %d and its log term %d", n.ID, idx, msg.GetTerm(), j, td, tl)})
						return
					}
				}
			}
		}
	}
	for _, msg := range rec.Released {
		check(msg)
	}
	for _, msg := range rec.Blocked {
		check(msg)
	}
	return out
}
