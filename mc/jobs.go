package mc

import (
	"crypto/sha256"
	"encoding/hex"
	"encoding/json"
	"fmt"
	"os"
	"os/exec"
	"path/filepath"
	"runtime/debug"
	"sort"
	"strings"
	"sync"
	"time"

	"verif/nodexspec"
)

// Job is one unit of exploration handed to a worker process.
type Job struct {
	Prop     string
	Tier     string
	Index    int
	Name     string
	Strategy string // "bfs" | "ddfs" | "nodex"
	Sc       *Scenario
	Node     *nodexspec.Spec `json:",omitempty"` // strategy "nodex": exploration of the channel front end (node.go)
	Mons     []string // monitor ids
	Suffix   bool     // run the convergence suffix (C15) from every state / end state
	Weight   int      // relative time share
	MinSeconds float64 // lower bound of the time share (targeted scenarios that need a certain depth)
	Seconds  float64  // deadline handed to the worker
}

// MonitorsByName builds monitors from their ids.
func MonitorsByName(names []string) MonitorFactory {
	return func() []Monitor {
		var out []Monitor
		for _, n := range names {
			mk, ok := monitorRegistry[n]
			if !ok {
				panic("harness: unknown monitor " + n)
			}
			out = append(out, mk())
		}
		return out
	}
}

var monitorRegistry = map[string]func() Monitor{
	"C01": func() Monitor { return NewMonC01() },
	"C02": func() Monitor { return NewMonC02() },
	"C03": func() Monitor { return NewMonC03() },
	"C04": func() Monitor { return NewMonC04() },
	"C05": func() Monitor { return NewMonC05() },
	"C06": func() Monitor { return NewMonC06() },
	"C07": func() Monitor { return NewMonC07() },
	"C08": func() Monitor { return NewMonC08() },
	"C09": func() Monitor { return NewMonC09() },
	"C10": func() Monitor { return NewMonC10() },
	"C11": func() Monitor { return NewMonC11() },
	"C14": func() Monitor { return NewMonC14() },
	"C16": func() Monitor { return NewMonC16() },
	"C17": func() Monitor { return NewMonC17() },
	"C20": func() Monitor { return NewMonC20() },
	"C05/C01": func() Monitor { return &relabel{inner: NewMonC01(), prop: "C05", afterCrash: true} },
	"C05/C02": func() Monitor { return &relabel{inner: NewMonC02(), prop: "C05", afterCrash: true} },
	"C05/C03": func() Monitor { return &relabel{inner: NewMonC03(), prop: "C05", afterCrash: true} },
	"C05/C04": func() Monitor { return &relabel{inner: NewMonC04(), prop: "C05", afterCrash: true} },
	"C05/C06": func() Monitor { return &relabel{inner: NewMonC06(), prop: "C05", afterCrash: false} },
}

// RunJob executes one job in this process.
func RunJob(j *Job) *Result {
	mf := MonitorsByName(j.Mons)
	lim := Limits{Par: 1}
	if j.Seconds > 0 {
		lim.Deadline = time.Now().Add(time.Duration(j.Seconds * float64(time.Second)))
	}
	var res *Result
	func() {
		defer func() {
			if r := recover(); r != nil {
				res = &Result{Scenario: j.Name, HarnessErr: fmt.Sprintf("harness panic: %v\n%s", r, debug.Stack())}
			}
		}()
		var onState func(w *World) []*Violation
		if j.Suffix {
			onState = ConvergenceCheck
		} else if j.Prop == "C10" && j.Strategy == "ddfs" {
			onState = AutoLeaveEndCheck
		}
		choices := j.Strategy == "ddfs"
		lim.Classify = func(path []Event, v *Violation) string {
			if v.Prop == "C17" && v.Oracle == "checkquorum-stepdown-after-transfer" {
				return ClassifyKnown(j.Sc, mf, path, choices, v.Prop+"/"+v.Oracle)
			}
			return ClassifyKnown(j.Sc, mf, path, choices, v.Prop)
		}
		lim.Determinism = j.Prop == "C19"
		lim.Convergence = j.Suffix
		switch j.Strategy {
		case "bfs":
			lim.OnState = onState
			res = BFS(j.Sc, mf, lim)
			if res.HarnessErr != "" && !j.Sc.NoClone && len(res.Found) == 0 && (strings.Contains(res.HarnessErr, "divergence") || strings.Contains(res.HarnessErr, "clone")) {
				// same fallback as for D-DFS: successors rebuilt by replay on fresh real objects
				first := res.HarnessErr
				sc := *j.Sc
				sc.NoClone = true
				lim2 := lim
				lim2.Deadline = time.Now().Add(time.Duration(max(20, j.Seconds) * float64(time.Second)))
				res2 := BFS(&sc, mf, lim2)
				if res2.HarnessErr == "" {
					res2.Counters = map[string]int{"reexplored_by_replay_after_clone_divergence": 1}
					res2.Caps = append(res2.Caps, "clone-based exploration diverged from its validation replay ("+firstLine(first)+"); scenario re-explored by replay")
					res = res2
				}
			}
		case "ddfs":
			runDD := func(sc *Scenario, l Limits) (r *Result) {
				defer func() {
					if p := recover(); p != nil {
						r = &Result{Scenario: j.Name, Strategy: "D-DFS", HarnessErr: fmt.Sprintf("harness panic: %v", p)}
					}
				}()
				return DevDFS(sc, mf, l, onState)
			}
			res = runDD(j.Sc, lim)
			if res.HarnessErr != "" && !j.Sc.NoClone && len(res.Found) == 0 {
				// The clone-based exploration and a from-scratch re-execution disagree. Clones never
				// share memory with what a node handed out earlier, real objects may: explore the
				// scenario again by replay only (every successor rebuilt on fresh real objects).
				// If that run is consistent, its verdict replaces the inconclusive one.
				first := res.HarnessErr
				sc := *j.Sc
				sc.NoClone = true
				lim2 := lim
				lim2.Deadline = time.Now().Add(time.Duration(max(20, j.Seconds) * float64(time.Second)))
				res2 := runDD(&sc, lim2)
				if res2.HarnessErr == "" {
					res2.Counters = map[string]int{"reexplored_by_replay_after_clone_divergence": 1}
					res2.Caps = append(res2.Caps, "clone-based exploration diverged from its validation replay ("+firstLine(first)+"); scenario re-explored by replay")
					res = res2
				}
			}
		default:
			panic("harness: unknown strategy " + j.Strategy)
		}
		// confirm every violation by re-executing it five times on fresh objects
		for _, f := range res.Found {
			if f.V.Prop == "C19" {
				continue // the violation is a divergence between two executions of the same path
			}
			for k := 0; k < 5; k++ {
				if !reproduces(j, f) {
					res.HarnessErr = fmt.Sprintf("violation %s does not reproduce on replay %d: %v", f.V, k, f.Path)
					break
				}
			}
		}
	}()
	res.Scenario = j.Name
	return res
}

func reproduces(j *Job, f *Found) bool {
	mf := MonitorsByName(j.Mons)
	var w *World
	var rec *StepRec
	if j.Strategy == "ddfs" {
		w, rec = replayChoices(j.Sc, mf, f.Path)
	} else {
		w, rec = Replay(j.Sc, mf, f.Path)
	}
	var vs []*Violation
	if rec != nil {
		vs = rec.Violations
	}
	if f.V.Oracle == "falls-silent" {
		// the execution was cut because it never fell silent: after replaying it, work must still be pending
		_, pending := w.defaultChoice()
		return pending && !w.Dead
	}
	if j.Suffix {
		if len(vs) == 0 && !w.Dead {
			vs = ConvergenceCheck(w)
		}
	} else if j.Prop == "C10" && j.Strategy == "ddfs" && len(vs) == 0 {
		// end-state oracle: run the execution to its quiescent end first
		for i := 0; i < 5000; i++ {
			ev, ok := w.nextDefault()
			if !ok {
				break
			}
			w.applyChoice(ev)
		}
		vs = AutoLeaveEndCheck(w)
	}
	for _, v := range vs {
		if v.Prop == f.V.Prop && v.Oracle == f.V.Oracle {
			return true
		}
	}
	return false
}

// ---------------------------------------------------------------- coordinator

// ReplayFile is the artefact written for every violation.
type ReplayFile struct {
	Property string
	Oracle   string
	Detail   string
	Job      *Job
	Path     []Event
	NodeOps  []nodexspec.Op `json:",omitempty"`
	Trace    []string
	Known    string `json:",omitempty"`
}

// KnownFinding is one entry of /verif/known_findings.json.
type KnownFinding struct {
	ID         string   `json:"id"`
	Status     string   `json:"status"` // "known" | "fixed"
	Properties []string `json:"properties"`
	Signature  string   `json:"signature"`
	Commit     string   `json:"commit,omitempty"`
	Summary    string   `json:"summary"`
}

func loadKnown(dir string) []KnownFinding {
	b, err := os.ReadFile(filepath.Join(dir, "known_findings.json"))
	if err != nil {
		return nil
	}
	var k []KnownFinding
	if err := json.Unmarshal(b, &k); err != nil {
		fmt.Fprintln(os.Stderr, "known_findings.json:", err)
		return nil
	}
	return k
}

type jobResult struct {
	job *Job
	res *Result
	err string
}

// OnlyFilter restricts Check to jobs whose name contains it (debugging aid).
var OnlyFilter string

// Check runs all jobs of a property/tier in worker processes and writes evidence.
func Check(prop, tier string, verifDir string, self string, procs int, budgetS float64, seed int64) int {
	start := time.Now()
	jobs := Jobs(prop, tier)
	if OnlyFilter != "" {
		var keep []*Job
		for _, j := range jobs {
			if strings.Contains(j.Name, OnlyFilter) {
				keep = append(keep, j)
			}
		}
		jobs = keep
	}
	if len(jobs) == 0 {
		fmt.Printf("no jobs for %s/%s\n", prop, tier)
		return 2
	}
	// Two phases. The scripted D-DFS jobs run first; most of them complete within seconds.
	// Whatever wall-clock time is left is then divided among the E-BFS jobs (which run
	// until their deadline), in proportion to their weights.
	results := make([]jobResult, len(jobs))
	runPool := func(idx []int) {
		sem := make(chan struct{}, procs)
		var wg sync.WaitGroup
		for _, ji := range idx {
			wg.Add(1)
			sem <- struct{}{}
			go func(ji int) {
				defer wg.Done()
				defer func() { <-sem }()
				results[ji] = runWorker(self, jobs[ji])
			}(ji)
		}
		wg.Wait()
	}
	var dd, bfs []int
	for i, j := range jobs {
		if j.Weight <= 0 {
			j.Weight = 1
		}
		if j.Strategy == "ddfs" {
			dd = append(dd, i)
		} else {
			bfs = append(bfs, i)
		}
	}
	ddBudget := budgetS
	if len(bfs) > 0 {
		ddBudget = budgetS * 0.45
	}
	if len(dd) > 0 {
		waves := float64((len(dd) + procs - 1) / procs)
		for _, ji := range dd {
			jobs[ji].Seconds = max(4, ddBudget/waves)
		}
		runPool(dd)
	}
	if len(bfs) > 0 {
		remaining := max(10, budgetS-time.Since(start).Seconds())
		totalW := 0
		for _, ji := range bfs {
			totalW += jobs[ji].Weight
		}
		for _, ji := range bfs {
			share := remaining * float64(procs) * float64(jobs[ji].Weight) / float64(totalW)
			jobs[ji].Seconds = max(4, jobs[ji].MinSeconds, min(share, remaining))
		}
		// heavier jobs first
		sort.SliceStable(bfs, func(a, b int) bool { return jobs[bfs[a]].Weight > jobs[bfs[b]].Weight })
		runPool(bfs)
	}

	known := loadKnown(verifDir)
	agg := struct {
		states, transitions, replays, prefixChecks, terminal, executions int64
		outcomes                                                           map[string]bool
		exhaustive                                                         bool
	}{outcomes: map[string]bool{}, exhaustive: true}
	var scen []map[string]any
	var samples []any
	var harnessErrs []string
	violations := 0
	knownHits := map[string]int{}
	counters := map[string]int{}
	os.MkdirAll(filepath.Join(verifDir, "replays"), 0o755)
	for _, jr := range results {
		if jr.err != "" {
			harnessErrs = append(harnessErrs, jr.job.Name+": "+jr.err)
			continue
		}
		r := jr.res
		if r.HarnessErr != "" {
			harnessErrs = append(harnessErrs, jr.job.Name+": "+r.HarnessErr)
		}
		agg.states += r.States
		agg.transitions += r.Transitions
		agg.replays += r.Replays
		agg.prefixChecks += r.PrefixChecks
		agg.terminal += r.Terminal
		agg.executions += r.Executions
		for o := range r.Outcomes {
			agg.outcomes[o] = true
		}
		for k, v := range r.Counters {
			counters[k] += v
		}
		if !r.Exhaustive {
			agg.exhaustive = false
		}
		s := map[string]any{"scenario": jr.job.Name, "strategy": r.Strategy, "states": r.States, "transitions": r.Transitions,
			"max_depth": r.MaxDepth, "terminal_states": r.Terminal, "distinct_outcomes": len(r.Outcomes), "exhaustive": r.Exhaustive,
			"wall_s": round1(r.WallS), "bounds": boundsOf(jr.job.Sc)}
		if jr.job.Node != nil {
			s["bounds"] = nodeBoundsOf(jr.job.Node)
		}
		if r.Strategy == "D-DFS" {
			s["executions"] = r.Executions
			s["deviation_bound_completed"] = r.DevBound
		}
		if len(r.Caps) > 0 {
			s["caps"] = r.Caps
		}
		scen = append(scen, s)
		if len(r.Samples) > 0 && len(samples) < 4 {
			samples = append(samples, map[string]any{"scenario": jr.job.Name, "path": r.Samples[0]})
		}
		for _, f := range r.Found {
			kid := attributeKnown(known, f, jr.job)
			rf := &ReplayFile{Property: f.V.Prop, Oracle: f.V.Oracle, Detail: f.V.Detail, Job: jr.job, Path: f.Path, NodeOps: f.NodeOps, Trace: f.Trace, Known: kid}
			b, _ := json.MarshalIndent(rf, "", " ")
			h := sha256.Sum256(b)
			name := fmt.Sprintf("%s-%s.json", prop, hex.EncodeToString(h[:6]))
			p := filepath.Join(verifDir, "replays", name)
			os.WriteFile(p, b, 0o644)
			if kid != "" {
				if knownHits[kid] == 0 {
					fmt.Printf("KNOWN-FINDING: property=%s %s: %s (oracle %s; replay=%s)\n", prop, kid, knownSummary(known, kid), f.V.Oracle, p)
				}
				knownHits[kid]++
				continue
			}
			violations++
			if violations <= 5 {
				fmt.Printf("VIOLATION property=%s replay=%s\n", prop, p)
				fmt.Printf("  %s\n", f.V)
			}
		}
	}
	if prop == "C19" {
		// cross-process comparison: the two runs of every scenario must agree on
		// every state key and every output hash
		byName := map[string]jobResult{}
		for _, jr := range results {
			if jr.res != nil {
				byName[jr.job.Name] = jr
			}
		}
		pairs := 0
		for name, a := range byName {
			b, ok := byName[name+"#2"]
			if !ok {
				continue
			}
			if strings.Contains(strings.Join(a.res.Caps, " ")+strings.Join(b.res.Caps, " "), "deadline") {
				counters["cross_process_pairs_skipped_deadline"]++
				continue
			}
			pairs++
			if a.res.Digest != b.res.Digest || a.res.States != b.res.States {
				violations++
				rf := map[string]any{"Property": "C19", "Oracle": "cross-process", "Scenario": name, "DigestA": a.res.Digest, "DigestB": b.res.Digest, "StatesA": a.res.States, "StatesB": b.res.States}
				bb, _ := json.MarshalIndent(rf, "", " ")
				p := filepath.Join(verifDir, "replays", "C19-crossprocess-"+strings.ReplaceAll(name, "/", "_")+".json")
				os.WriteFile(p, bb, 0o644)
				fmt.Printf("VIOLATION property=C19 replay=%s\n  two processes exploring %s disagree on states/outputs (%s vs %s)\n", p, name, a.res.Digest, b.res.Digest)
			}
		}
		counters["cross_process_pairs_compared"] = pairs
	}
	if len(harnessErrs) > 0 {
		agg.exhaustive = false
	}
	ev := map[string]any{
		"property_id": prop, "tier": tier, "seed": seed, "level": "model_checking",
		"wall_s":     round1(time.Since(start).Seconds()),
		"violations": violations,
		"coverage": map[string]any{
			"states": agg.states, "transitions": agg.transitions,
			"traces_validated_against_impl": agg.replays,
			"full_prefix_validations":       agg.prefixChecks,
			"terminal_states":               agg.terminal,
			"executions":                    agg.executions,
			"distinct_outcomes":             len(agg.outcomes),
			"exhaustive":                    agg.exhaustive,
			"scenarios":                     scen,
			"samples":                       samples,
			"counters":                      counters,
			"known_finding_hits":            knownHits,
			"harness_errors":                harnessErrs,
			"explanation": "explicit-state exploration of the real RawNode/MemoryStorage; every state is rebuilt by replaying its path on fresh objects (traces_validated_against_impl counts these re-executions, each compared by state key); 'exhaustive' is true only if every listed scenario was enumerated completely within its stated budgets",
		},
		"assumptions": []string{
			"application follows the Ready/Advance or storage-thread contract as written in DESIGN.md §4",
			"storage is raft.MemoryStorage; crash semantics as in DESIGN.md §3.2/§5.3",
			"bounds are those listed per scenario; nothing is claimed beyond them",
		},
	}
	os.MkdirAll(filepath.Join(verifDir, "evidence"), 0o755)
	b, _ := json.MarshalIndent(ev, "", " ")
	os.WriteFile(filepath.Join(verifDir, "evidence", prop+".json"), b, 0o644)
	fmt.Printf("%s/%s: jobs=%d states=%d transitions=%d replays=%d executions=%d outcomes=%d exhaustive=%v violations=%d known=%v wall=%.0fs\n",
		prop, tier, len(jobs), agg.states, agg.transitions, agg.replays, agg.executions, len(agg.outcomes), agg.exhaustive, violations, knownHits, time.Since(start).Seconds())
	for _, e := range harnessErrs {
		fmt.Println("HARNESS-ERROR:", firstLine(e))
	}
	if violations > 0 {
		return 1
	}
	if len(harnessErrs) > 0 {
		return 2
	}
	return 0
}

// runNodeWorker runs the Node explorer (a test binary, because testing/synctest bubbles
// exist only there) next to this executable. With replay != nil it re-executes one
// operation list instead of exploring.
func runNodeWorker(self string, j *Job, replay []nodexspec.Op, isReplay bool) jobResult {
	if isReplay && replay == nil {
		replay = []nodexspec.Op{}
	}
	bin := filepath.Join(filepath.Dir(self), "nodex.test")
	dir, err := os.MkdirTemp(filepath.Dir(self), "nodex-run-")
	if err != nil {
		return jobResult{job: j, err: "nodex: " + err.Error()}
	}
	defer os.RemoveAll(dir)
	sp := *j.Node
	sp.Seconds = j.Seconds
	ws := nodexspec.WorkerSpec{Spec: &sp, Replay: replay}
	b, _ := json.Marshal(&ws)
	specPath, outPath := filepath.Join(dir, "spec.json"), filepath.Join(dir, "out.json")
	os.WriteFile(specPath, b, 0o644)
	cmd := exec.Command(bin, "-test.run", "^TestWorker$", "-test.timeout", "0")
	cmd.Env = append(os.Environ(), "GOMAXPROCS=1", "NODEX_SPEC="+specPath, "NODEX_OUT="+outPath)
	var stderr, stdout strings.Builder
	cmd.Stderr, cmd.Stdout = &stderr, &stdout
	done := make(chan error, 1)
	if err := cmd.Start(); err != nil {
		return jobResult{job: j, err: "nodex: cannot start " + bin + ": " + err.Error()}
	}
	go func() { done <- cmd.Wait() }()
	hard := time.Duration((j.Seconds*1.5 + 60) * float64(time.Second))
	select {
	case err = <-done:
	case <-time.After(hard):
		cmd.Process.Kill()
		<-done
		return jobResult{job: j, err: "nodex worker exceeded its hard timeout"}
	}
	res := &Result{Scenario: j.Name, Strategy: "Node-BFS", Exhaustive: true, Outcomes: map[string]int64{}, Counters: map[string]int{}}
	if err != nil {
		// the process died: a panic on the Node's own goroutine cannot be recovered by the explorer
		all := stdout.String() + stderr.String()
		if i := strings.Index(all, "panic: "); i >= 0 && strings.Contains(all, "raft/v3.(*node).run") {
			var ops []nodexspec.Op
			if cur, e := os.ReadFile(outPath + ".cur"); e == nil {
				json.Unmarshal([]byte(strings.TrimSpace(string(cur))), &ops)
			}
			var tr []string
			for _, o := range ops {
				tr = append(tr, o.String())
			}
			res.Exhaustive = false
			res.Found = append(res.Found, &Found{V: &Violation{j.Prop, "node-goroutine-survives", "the Node's goroutine died: " + firstLine(all[i:])}, Scenario: j.Name, NodeOps: ops, Trace: tr})
			return jobResult{job: j, res: res}
		}
		return jobResult{job: j, err: "nodex worker failed: " + err.Error() + ": " + lastLines(all, 6)}
	}
	raw, err := os.ReadFile(outPath)
	if err != nil {
		return jobResult{job: j, err: "nodex worker wrote no result: " + lastLines(stdout.String()+stderr.String(), 6)}
	}
	var out nodexspec.WorkerOut
	if e := json.Unmarshal(raw, &out); e != nil {
		return jobResult{job: j, err: "bad nodex output: " + e.Error()}
	}
	if isReplay {
		if out.Violation != nil {
			res.Found = append(res.Found, &Found{V: &Violation{out.Violation.Prop, out.Violation.Oracle, out.Violation.Detail}, Scenario: j.Name, NodeOps: replay, Trace: out.Trace})
		}
		return jobResult{job: j, res: res}
	}
	r := out.Result
	res.States, res.Transitions, res.Replays, res.MaxDepth = r.States, r.Transitions, r.Replays, r.MaxDepth
	res.Exhaustive, res.Caps, res.Outcomes, res.WallS, res.HarnessErr, res.Samples = r.Exhaustive, r.Caps, r.Outcomes, r.WallS, r.HarnessErr, r.Samples
	for _, f := range r.Found {
		if f.V.Prop != j.Prop {
			// reported by the check of the property the oracle belongs to
			res.Counters["node_violations_of_other_properties("+f.V.Prop+")"]++
			continue
		}
		res.Found = append(res.Found, &Found{V: &Violation{f.V.Prop, f.V.Oracle, f.V.Detail}, Scenario: j.Name, NodeOps: f.Ops, Trace: f.Trace})
	}
	// a violation has to reproduce on every one of five fresh re-executions
	for _, f := range res.Found {
		for k := 0; k < 5; k++ {
			rr := runNodeWorker(self, j, f.NodeOps, true)
			if rr.err != "" || rr.res == nil || len(rr.res.Found) == 0 || rr.res.Found[0].V.Oracle != f.V.Oracle {
				res.HarnessErr = fmt.Sprintf("violation %s does not reproduce on replay %d", f.V, k)
				break
			}
		}
	}
	return jobResult{job: j, res: res}
}

func lastLines(s string, n int) string {
	ls := strings.Split(strings.TrimSpace(s), "\n")
	if len(ls) > n {
		ls = ls[len(ls)-n:]
	}
	return strings.Join(ls, " | ")
}

func firstLine(s string) string {
	if i := strings.IndexByte(s, '\n'); i >= 0 {
		return s[:i]
	}
	return s
}

func round1(f float64) float64 { return float64(int(f*10)) / 10 }

func nodeBoundsOf(sp *nodexspec.Spec) map[string]any {
	return map[string]any{"interface": "raft.Node (node.go) inside a testing/synctest bubble, one client operation at a time", "voters": sp.Voters,
		"operation_sequences_up_to_length": sp.Depth, "alphabet_size": len(sp.Ops), "prefix_operations": len(sp.Prefix), "async_storage_writes": sp.Async,
		"prevote_checkquorum": sp.PreVote, "max_proposals": sp.MaxProposals, "max_reads": sp.MaxReads, "conf_menu": sp.ConfMenu,
		"oracle": "state behind the Node, everything it handed out and every return value equal a reference RawNode driven by the same operations"}
}

func boundsOf(sc *Scenario) map[string]any {
	if sc == nil {
		return nil
	}
	m := map[string]any{"nodes": sc.N, "voters": sc.Voters}
	if len(sc.Learners) > 0 {
		m["learners"] = sc.Learners
	}
	b := map[string]int{}
	for k, v := range sc.Budget {
		if v > 0 {
			b[budgetNames[k]] = v
		}
	}
	m["budgets"] = b
	c := sc.cfg(0)
	feat := []string{}
	if c.Async {
		feat = append(feat, "async")
	}
	if c.PreVote {
		feat = append(feat, "prevote")
	}
	if c.CheckQuorum {
		feat = append(feat, "checkquorum")
	}
	if sc.SplitReady {
		feat = append(feat, "split-ready")
	}
	if sc.LazyReady {
		feat = append(feat, "lazy-ready")
	}
	if sc.LazyLocal {
		feat = append(feat, "lazy-local")
	}
	m["features"] = feat
	if len(sc.Script) > 0 {
		m["script_ops"] = len(sc.Script)
		m["deviation_bound"] = sc.DevBound
	}
	if sc.MaxTerm > 0 {
		m["max_term"] = sc.MaxTerm
	}
	return m
}

func runWorker(self string, j *Job) jobResult {
	if j.Strategy == "nodex" {
		return runNodeWorker(self, j, nil, false)
	}
	spec, _ := json.Marshal(j)
	cmd := exec.Command(self, "worker")
	cmd.Stdin = strings.NewReader(string(spec))
	cmd.Env = append(os.Environ(), "GOMAXPROCS=1", "GOGC=150")
	cmd.Stderr = os.Stderr
	done := make(chan struct{})
	var out []byte
	var err error
	go func() {
		out, err = cmd.Output()
		close(done)
	}()
	hard := time.Duration((j.Seconds*1.5+60)*float64(time.Second))
	select {
	case <-done:
	case <-time.After(hard):
		cmd.Process.Kill()
		<-done
		return jobResult{job: j, err: "worker exceeded its hard timeout"}
	}
	if err != nil {
		return jobResult{job: j, err: "worker failed: " + err.Error()}
	}
	var res Result
	if e := json.Unmarshal(out, &res); e != nil {
		return jobResult{job: j, err: "bad worker output: " + e.Error()}
	}
	return jobResult{job: j, res: &res}
}

// WorkerMain reads a Job from stdin, runs it and prints the Result as JSON.
func WorkerMain() {
	var j Job
	dec := json.NewDecoder(os.Stdin)
	if err := dec.Decode(&j); err != nil {
		fmt.Fprintln(os.Stderr, "worker: bad job:", err)
		os.Exit(2)
	}
	res := RunJob(&j)
	b, _ := json.Marshal(res)
	os.Stdout.Write(b)
}

func knownSummary(known []KnownFinding, id string) string {
	for _, k := range known {
		if k.ID == id {
			return k.Summary
		}
	}
	return ""
}

// ReplayMain re-executes a replay artefact on fresh objects, without the explorer.
func ReplayMain(path string, verbose bool) int {
	b, err := os.ReadFile(path)
	if err != nil {
		fmt.Println(err)
		return 2
	}
	var rf ReplayFile
	if err := json.Unmarshal(b, &rf); err != nil {
		fmt.Println(err)
		return 2
	}
	j := rf.Job
	if j.Strategy == "nodex" {
		for _, l := range rf.Trace {
			fmt.Println(l)
		}
		self, _ := os.Executable()
		rr := runNodeWorker(self, j, rf.NodeOps, true)
		if rr.err != "" {
			fmt.Println(rr.err)
			return 2
		}
		if len(rr.res.Found) > 0 {
			fmt.Printf("REPRODUCED %s\n", rr.res.Found[0].V)
			return 1
		}
		fmt.Println("not reproduced on the current tree")
		return 0
	}
	mf := MonitorsByName(j.Mons)
	var trace []string
	if j.Strategy == "ddfs" {
		trace = DescribeChoices(j.Sc, mf, rf.Path)
	} else {
		trace = Describe(j.Sc, mf, rf.Path)
	}
	for _, l := range trace {
		fmt.Println(l)
	}
	if j.Suffix && verbose {
		ConvergeTrace = func(s string) { fmt.Println("  suffix:", s) }
	}
	f := &Found{V: &Violation{Prop: rf.Property, Oracle: rf.Oracle, Detail: rf.Detail}, Path: rf.Path}
	if reproduces(j, f) {
		fmt.Printf("REPRODUCED %s/%s: %s\n", rf.Property, rf.Oracle, rf.Detail)
		return 1
	}
	fmt.Println("not reproduced on the current tree")
	return 0
}
