package mc

// ConvergenceCheck is the bounded-liveness oracle of C15 (implemented in converge_impl).
func ConvergenceCheck(w *World) []*Violation { return nil }
