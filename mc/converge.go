package mc

import (
	"fmt"
	"sort"
	"strings"

	"go.etcd.io/raft/v3"
	pb "go.etcd.io/raft/v3/raftpb"
	"go.etcd.io/raft/v3/tracker"
	"verif/refmodel"
)

// ConvergeTrace, if set, receives a line per suffix round (debugging/replay aid).
var ConvergeTrace func(string)

// ConvergenceHorizon is the number of election timeouts the fault-free suffix may take.
const ConvergenceHorizon = 40

// committedConfig computes the configuration after all committed configuration
// changes, from the node that knows the highest commit index.
func committedConfig(w *World) (*refmodel.Conf, bool) {
	best := -1
	for i, n := range w.Nodes {
		if n.Stopped {
			continue
		}
		if best < 0 || n.vs().Committed > w.Nodes[best].vs().Committed {
			best = i
		}
	}
	if best < 0 {
		return nil, false
	}
	vs := w.Nodes[best].vs()
	cfg := confOfState(vs)
	log := w.Log(best)
	for idx := vs.Applied + 1; idx <= vs.Committed; idx++ {
		e := log.Entry(idx)
		if e == nil || !isConf(e) {
			continue
		}
		var v2 *pb.ConfChangeV2
		if e.GetType() == pb.EntryConfChange {
			c := &pb.ConfChange{}
			if protoUnmarshal(e.GetData(), c) != nil {
				return nil, false
			}
			v2 = c.AsV2()
		} else {
			c := &pb.ConfChangeV2{}
			if protoUnmarshal(e.GetData(), c) != nil {
				return nil, false
			}
			v2 = c
		}
		n, err := cfg.ApplyV2(int(v2.GetTransition()), toChanges(v2.GetChanges()))
		if err != nil {
			return nil, false
		}
		cfg = n
	}
	return cfg, true
}

type convStatus struct {
	ok      bool
	leader  int
	missing string
}

func convergedNow(w *World, members map[uint64]bool, fresh []byte) convStatus {
	st := convStatus{leader: -1}
	var ref *raft.VerifState
	for i, n := range w.Nodes {
		if n.Stopped || !members[n.ID] {
			continue
		}
		vs := n.vs()
		if vs.State == raft.StateLeader {
			if st.leader >= 0 {
				st.missing = fmt.Sprintf("two leaders: %d and %d", w.Nodes[st.leader].ID, n.ID)
				return st
			}
			st.leader = i
		}
	}
	if st.leader < 0 {
		st.missing = "no leader"
		return st
	}
	lvs := w.Nodes[st.leader].vs()
	if lvs.LeadTransferee != 0 {
		st.missing = fmt.Sprintf("leader %d still transferring to %d", lvs.ID, lvs.LeadTransferee)
		return st
	}
	if len(lvs.Voters[1]) > 0 && lvs.AutoLeave {
		st.missing = "joint auto-leave configuration not left"
		return st
	}
	for _, p := range lvs.Progress {
		if !members[p.ID] {
			continue
		}
		if p.State == tracker.StateSnapshot {
			st.missing = fmt.Sprintf("leader still waits for a snapshot to %d", p.ID)
			return st
		}
		if p.Match != lvs.LastIndex {
			st.missing = fmt.Sprintf("leader has match %d for %d, last index %d", p.Match, p.ID, lvs.LastIndex)
			return st
		}
	}
	for i, n := range w.Nodes {
		if n.Stopped || !members[n.ID] {
			continue
		}
		vs := n.vs()
		if ref == nil {
			ref = vs
		}
		log := w.Log(i)
		switch {
		case vs.LastIndex != lvs.LastIndex || log.LastTerm() != w.Log(st.leader).LastTerm():
			st.missing = fmt.Sprintf("node %d last (%d,t%d) differs from leader's (%d,t%d)", n.ID, vs.LastIndex, log.LastTerm(), lvs.LastIndex, w.Log(st.leader).LastTerm())
		case vs.Committed != vs.LastIndex:
			st.missing = fmt.Sprintf("node %d commit %d < last %d", n.ID, vs.Committed, vs.LastIndex)
		case vs.Applied != vs.Committed || vs.Applying != vs.Applied || n.App.Applied < vs.Applied:
			st.missing = fmt.Sprintf("node %d applied %d/%d < commit %d", n.ID, vs.Applied, n.App.Applied, vs.Committed)
		case len(vs.UnstableEntries) > 0 || vs.UnstableSnapshot != nil:
			st.missing = fmt.Sprintf("node %d still has unstable state", n.ID)
		case vs.Term != lvs.Term:
			st.missing = fmt.Sprintf("node %d at term %d, leader at %d", n.ID, vs.Term, lvs.Term)
		case len(n.AppendQ)+len(n.ApplyQ)+len(n.LocalQ) > 0 || n.Pending != nil:
			st.missing = fmt.Sprintf("node %d has storage work outstanding", n.ID)
		}
		if st.missing != "" {
			return st
		}
		if fresh != nil {
			found := false
			for _, e := range log.Ents {
				if string(e.GetData()) == string(fresh) && e.GetIndex() <= vs.Applied {
					found = true
				}
			}
			if !found {
				st.missing = fmt.Sprintf("node %d has not applied the fresh proposal", n.ID)
				return st
			}
		}
	}
	if fresh == nil {
		st.missing = "fresh proposal not accepted yet"
		return st
	}
	st.ok = true
	return st
}

// ConvergenceCheck is the bounded-liveness oracle of C15: from the given state,
// stop all faults, restart nothing (nodes are always up), stop nodes that are
// not members of the committed configuration, report outstanding snapshot
// transfers, and run the deterministic fault-free schedule with ticks. Within
// ConvergenceHorizon election timeouts the group must have converged.
func ConvergenceCheck(src *World) []*Violation {
	if src.Dead {
		return nil
	}
	w := src.Clone()
	w.Mons = nil
	for k := range w.Budget {
		w.Budget[k] = 0
	}
	w.Apply(Event{Kind: EvHeal})
	cfg, ok := committedConfig(w)
	if !ok {
		return nil
	}
	members := map[uint64]bool{}
	for _, s := range [][]uint64{sortedU(cfg.Incoming), sortedU(cfg.Outgoing), sortedU(cfg.Learners), sortedU(cfg.LearnersNext)} {
		for _, id := range s {
			members[id] = true
		}
	}
	maxET := 0
	for i := range w.Nodes {
		n := w.own(i)
		// distinct election timeouts within [ET, 2ET-1] as far as the range allows
		n.Cfg.Timeout = n.Cfg.ElectionTick + int(n.ID-1)%n.Cfg.ElectionTick
		w.touch(n)
		if n.Cfg.ElectionTick > maxET {
			maxET = n.Cfg.ElectionTick
		}
	}
	syncStopped(w, members)
	// messages in flight towards stopped nodes are gone
	kept := w.Net[:0:0]
	for _, m := range w.Net {
		if !w.Nodes[m.M.GetTo()-1].Stopped {
			kept = append(kept, m)
		}
	}
	w.Net = kept
	// outstanding snapshot transfers are reported
	for _, n := range w.Nodes {
		for len(n.SnapObl) > 0 && !n.Stopped {
			w.Apply(Event{Kind: EvReportSnap, Node: uint8(n.ID), Peer: uint8(n.SnapObl[0])})
			n = w.Nodes[n.ID-1]
		}
	}
	var fresh []byte
	status := convStatus{}
	rounds := ConvergenceHorizon * maxET
	for r := 0; r < rounds; r++ {
		if !w.quiesce() {
			return suffixPanic(src, w)
		}
		status = convergedNow(w, members, fresh)
		if ConvergeTrace != nil {
			extra := ""
			for _, n := range w.Nodes {
				extra += fmt.Sprintf(" %d:stopped=%v,lead=%d,el=%d/%d,vote=%d", n.ID, n.Stopped, n.vs().Lead, n.vs().ElectionElapsed, n.Cfg.Timeout, n.vs().Vote)
			}
			ConvergeTrace(fmt.Sprintf("round %d: %s | %s |%s", r, status.missing, w.outcome(), extra))
		}
		if status.ok {
			return nil
		}
		if fresh == nil && status.leader >= 0 && stableLeader(w, members, status.leader) {
			rec := w.Apply(Event{Kind: EvPropose, Node: uint8(status.leader + 1), Arg: 1})
			if rec.OpErr == nil && len(rec.PropPayloads) == 1 {
				fresh = rec.PropPayloads[0]
			}
			if !w.quiesce() {
				return suffixPanic(src, w)
			}
		}
		// membership may have moved on (e.g. an auto-leave or a pending removal got committed)
		if c2, ok := committedConfig(w); ok {
			m2 := map[uint64]bool{}
			for _, s := range [][]uint64{sortedU(c2.Incoming), sortedU(c2.Outgoing), sortedU(c2.Learners), sortedU(c2.LearnersNext)} {
				for _, id := range s {
					m2[id] = true
				}
			}
			syncStopped(w, m2)
			members, cfg = m2, c2
		}
		if r%(8*maxET) == 0 {
			// A new draw of the randomized election timeouts. Each draw is kept for
			// several timeouts and the assignment rotates, so that every node is the
			// fastest for a sustained period (two nodes whose terms differ and who do
			// not talk to each other only meet if one of them times out faster for a while).
			for i := range w.Nodes {
				n := w.own(i)
				n.Cfg.Timeout = n.Cfg.ElectionTick + ((int(n.ID-1)+r/(8*maxET))%len(w.Nodes))%n.Cfg.ElectionTick
				w.touch(n)
			}
		}
		for _, n := range w.Nodes {
			if !n.Stopped {
				w.Apply(Event{Kind: EvTick, Node: uint8(n.ID)})
				if w.Dead {
					return suffixPanic(src, w)
				}
			}
		}
	}
	// the documented exception: a voter removed or demoted out of a two-voter set
	if twoVoterException(w, cfg) {
		src.Counters["c15_two_voter_exception_skipped"]++
		return nil
	}
	return []*Violation{{"C15", "converges-within-horizon", fmt.Sprintf("after %d election timeouts without faults: %s; final %s", ConvergenceHorizon, status.missing, w.outcome())}}
}

// suffixPanic: a node that panics during the fault-free suffix does not converge.
// The panic of known finding KF-2 is not reported again here.
func suffixPanic(src, w *World) []*Violation {
	msg := fmt.Sprint(w.LastPanic)
	if strings.Contains(msg, "term should be set when sending MsgPreVoteResp") {
		src.Counters["c15_suffix_skipped_known_panic"]++
		return nil
	}
	return []*Violation{{"C15", "converges-within-horizon", fmt.Sprintf("a node panicked during the fault-free suffix: %s; state %s", msg, w.outcome())}}
}

// syncStopped stops nodes that were removed from the committed configuration (they
// still believe to be members) and (re)starts nodes that are members. Nodes that
// have never been part of any configuration keep running: they are inert.
func syncStopped(w *World, members map[uint64]bool) {
	for i := range w.Nodes {
		n := w.Nodes[i]
		vs := n.vs()
		believes := len(vs.Voters[0])+len(vs.Voters[1])+len(vs.Learners)+len(vs.LearnersNext) > 0
		switch {
		case !members[n.ID] && believes && !n.Stopped:
			w.Apply(Event{Kind: EvStop, Node: uint8(n.ID)})
		case members[n.ID] && n.Stopped:
			n = w.own(i)
			n.Stopped = false
			w.touch(n)
		}
	}
}

// stableLeader: every running member follows the one leader in its term.
func stableLeader(w *World, members map[uint64]bool, leader int) bool {
	lvs := w.Nodes[leader].vs()
	for _, n := range w.Nodes {
		if n.Stopped || !members[n.ID] {
			continue
		}
		vs := n.vs()
		if vs.Term != lvs.Term || vs.Lead != lvs.ID {
			return false
		}
	}
	return true
}

func sortedU(m map[uint64]bool) []uint64 {
	s := make([]uint64, 0, len(m))
	for k := range m {
		s = append(s, k)
	}
	sort.Slice(s, func(a, b int) bool { return s[a] < s[b] })
	return s
}

// twoVoterException recognises the README's caveat: some running node still uses a
// voter set of exactly two of which one is stopped (it was removed or demoted).
func twoVoterException(w *World, cfg *refmodel.Conf) bool {
	for _, n := range w.Nodes {
		if n.Stopped {
			continue
		}
		vs := n.vs()
		for _, set := range vs.Voters {
			if len(set) == 2 {
				for _, id := range set {
					if int(id) <= len(w.Nodes) && w.Nodes[id-1].Stopped {
						return true
					}
				}
			}
		}
	}
	return false
}

// quiesce runs the default scheduler until nothing is pending; false if a node panicked.
func (w *World) quiesce() bool {
	for i := 0; i < 5000; i++ {
		ev, ok := w.defaultChoice()
		if !ok {
			return !w.Dead
		}
		w.Apply(ev)
	}
	return !w.Dead
}
