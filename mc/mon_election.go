package mc

import (
	"encoding/binary"
	"fmt"
	"sort"

	"go.etcd.io/raft/v3"
	pb "go.etcd.io/raft/v3/raftpb"
	"verif/refmodel"
)

type nodeTerm struct {
	id, term uint64
}

type candKey struct {
	id   uint64
	inc  int
	term uint64
}

// MonC02 checks election safety and vote discipline.
type MonC02 struct {
	leaderOf  map[uint64][2]uint64 // term -> (id, incarnation)
	granted   map[nodeTerm]uint64   // (voter, term) -> candidate
	delivered map[candKey]map[uint64]bool
	shared    bool
}

func NewMonC02() *MonC02 { return &MonC02{} }
func (m *MonC02) Prop() string { return "C02" }
func (m *MonC02) Init(w *World) {
	m.leaderOf = map[uint64][2]uint64{}
	m.granted = map[nodeTerm]uint64{}
	m.delivered = map[candKey]map[uint64]bool{}
}

func contains(s []uint64, x uint64) bool {
	for _, y := range s {
		if y == x {
			return true
		}
	}
	return false
}

func (m *MonC02) grant(voter, term, cand uint64, how string) *Violation {
	k := nodeTerm{voter, term}
	if old, ok := m.granted[k]; ok && old != cand {
		return &Violation{"C02", "one-vote-per-term", fmt.Sprintf("node %d granted its vote in term %d to %d (%s) after granting it to %d", voter, term, cand, how, old)}
	}
	if old, ok := m.granted[k]; !ok || old != cand {
		m.own()
		m.granted[k] = cand
	}
	return nil
}

func (m *MonC02) OnEvent(w *World, rec *StepRec) []*Violation {
	var out []*Violation
	// (b) grants released to the network
	for _, msg := range rec.Released {
		if msg.GetType() == pb.MsgVoteResp && !msg.GetReject() {
			if v := m.grant(msg.GetFrom(), msg.GetTerm(), msg.GetTo(), "released MsgVoteResp"); v != nil {
				out = append(out, v)
			}
		}
	}
	if rec.Node < 0 || w.Dead {
		return out
	}
	n := w.Nodes[rec.Node]
	pre, post := rec.Pre, n.vs()
	// grants delivered to a candidate
	if d := rec.Delivered; d != nil && d.GetType() == pb.MsgVoteResp && !d.GetReject() {
		k := candKey{n.ID, n.Inc, d.GetTerm()}
		if !m.delivered[k][d.GetFrom()] {
			m.own()
			if m.delivered[k] == nil {
				m.delivered[k] = map[uint64]bool{}
			}
			m.delivered[k][d.GetFrom()] = true
		}
	}
	// self vote counted
	if post.State == raft.StateCandidate && contains(post.VotesFor, n.ID) && !(pre.State == raft.StateCandidate && pre.Term == post.Term && contains(pre.VotesFor, n.ID)) {
		if v := m.grant(n.ID, post.Term, n.ID, "self vote counted"); v != nil {
			out = append(out, v)
		}
	}
	// (e) a vote that was released is never forgotten across a restart
	if rec.Restarted {
		if c, ok := m.granted[nodeTerm{n.ID, post.Term}]; ok && post.Vote != c {
			out = append(out, &Violation{"C02", "vote-survives-restart", fmt.Sprintf("node %d granted its vote in term %d to %d, but restarted in that term with vote %d", n.ID, post.Term, c, post.Vote)})
		}
	}
	// (c) up-to-date restriction at the step that produces a grant
	if d := rec.Delivered; d != nil && d.GetType() == pb.MsgVote {
		granted := false
		for _, r := range post.MsgsAfterAppend {
			if r.GetType() == pb.MsgVoteResp && !r.GetReject() && r.GetTo() == d.GetFrom() && r.GetTerm() == d.GetTerm() {
				granted = true
			}
		}
		for _, r := range pre.MsgsAfterAppend {
			if r.GetType() == pb.MsgVoteResp && !r.GetReject() && r.GetTo() == d.GetFrom() && r.GetTerm() == d.GetTerm() {
				granted = false // was there before this step
			}
		}
		if granted && rec.PreLog != nil {
			if !refmodel.UpToDate(d.GetLogTerm(), d.GetIndex(), rec.PreLog.LastTerm(), rec.PreLog.Last()) {
				out = append(out, &Violation{"C02", "vote-up-to-date", fmt.Sprintf("node %d granted its vote in term %d to %d whose last entry (%d, t%d) is behind its own (%d, t%d)",
					n.ID, d.GetTerm(), d.GetFrom(), d.GetIndex(), d.GetLogTerm(), rec.PreLog.Last(), rec.PreLog.LastTerm())})
			}
		}
	}
	// (a) one leader per term, not even the same id in a later incarnation
	if post.State == raft.StateLeader {
		me := [2]uint64{n.ID, uint64(n.Inc)}
		if old, ok := m.leaderOf[post.Term]; ok && old != me {
			out = append(out, &Violation{"C02", "one-leader-per-term", fmt.Sprintf("node %d (incarnation %d) is leader of term %d, but node %d (incarnation %d) was leader of that term", n.ID, n.Inc, post.Term, old[0], old[1])})
		} else if !ok {
			m.own()
			m.leaderOf[post.Term] = me
		}
		// (d) became leader only on a joint majority of delivered grants
		if !(pre.State == raft.StateLeader && pre.Term == post.Term) || rec.Restarted {
			got := m.delivered[candKey{n.ID, n.Inc, post.Term}]
			yes := func(id uint64) bool { return id == n.ID || got[id] }
			if !refmodel.JointMajority(pre.Voters, yes) {
				out = append(out, &Violation{"C02", "leader-needs-joint-majority", fmt.Sprintf("node %d became leader of term %d with delivered grants %v (+self) which is no majority of every voter set of %v", n.ID, post.Term, keys(got), pre.Voters)})
			}
		}
	}
	return out
}

func keys(m map[uint64]bool) []uint64 {
	var s []uint64
	for k := range m {
		s = append(s, k)
	}
	sort.Slice(s, func(a, b int) bool { return s[a] < s[b] })
	return s
}

func (m *MonC02) Clone() Monitor {
	m.shared = true
	c := *m
	return &c
}

func (m *MonC02) own() {
	if !m.shared {
		return
	}
	c := &MonC02{leaderOf: make(map[uint64][2]uint64, len(m.leaderOf)+1), granted: make(map[nodeTerm]uint64, len(m.granted)+1), delivered: make(map[candKey]map[uint64]bool, len(m.delivered)+1)}
	for k, v := range m.leaderOf {
		c.leaderOf[k] = v
	}
	for k, v := range m.granted {
		c.granted[k] = v
	}
	for k, v := range m.delivered {
		mm := make(map[uint64]bool, len(v)+1)
		for a, b := range v {
			mm[a] = b
		}
		c.delivered[k] = mm
	}
	m.leaderOf, m.granted, m.delivered, m.shared = c.leaderOf, c.granted, c.delivered, false
}

func (m *MonC02) History(b []byte) []byte {
	var ts []uint64
	for t := range m.leaderOf {
		ts = append(ts, t)
	}
	sort.Slice(ts, func(a, c int) bool { return ts[a] < ts[c] })
	for _, t := range ts {
		b = binary.AppendUvarint(b, t)
		b = binary.AppendUvarint(b, m.leaderOf[t][0])
		b = binary.AppendUvarint(b, m.leaderOf[t][1])
	}
	b = append(b, 0xff)
	var gs []nodeTerm
	for k := range m.granted {
		gs = append(gs, k)
	}
	sort.Slice(gs, func(a, c int) bool {
		if gs[a].term != gs[c].term {
			return gs[a].term < gs[c].term
		}
		return gs[a].id < gs[c].id
	})
	for _, k := range gs {
		b = binary.AppendUvarint(b, k.id)
		b = binary.AppendUvarint(b, k.term)
		b = binary.AppendUvarint(b, m.granted[k])
	}
	b = append(b, 0xff)
	var ds []candKey
	for k := range m.delivered {
		ds = append(ds, k)
	}
	sort.Slice(ds, func(a, c int) bool {
		if ds[a].term != ds[c].term {
			return ds[a].term < ds[c].term
		}
		if ds[a].id != ds[c].id {
			return ds[a].id < ds[c].id
		}
		return ds[a].inc < ds[c].inc
	})
	for _, k := range ds {
		b = binary.AppendUvarint(b, k.id)
		b = binary.AppendUvarint(b, uint64(k.inc))
		b = binary.AppendUvarint(b, k.term)
		for _, v := range keys(m.delivered[k]) {
			b = binary.AppendUvarint(b, v)
		}
		b = append(b, 0xfe)
	}
	return b
}

// ---------------------------------------------------------------- C07

// MonC07 checks that the hard states a node exposes are monotone per incarnation
// starting from the persisted baseline, and that a restart continues from disk.
type MonC07 struct {
	last      []*pb.HardState // last exposed (or baseline) per node
	known     []*pb.HardState // what the application knows of each node's hard state: the state at start, then every exposed one
	startTerm []uint64
	shared    bool
}

func NewMonC07() *MonC07 { return &MonC07{} }
func (m *MonC07) Prop() string { return "C07" }
func (m *MonC07) Init(w *World) {
	m.last = make([]*pb.HardState, len(w.Nodes))
	m.startTerm = make([]uint64, len(w.Nodes))
	m.known = make([]*pb.HardState, len(w.Nodes))
	for i, n := range w.Nodes {
		vs := n.vs()
		m.known[i] = &pb.HardState{Term: new(vs.Term), Vote: new(vs.Vote), Commit: new(vs.Committed)}
	}
	for i := range w.Nodes {
		m.last[i] = cloneHS(w.DiskHS(i))
		if m.last[i] == nil {
			m.last[i] = &pb.HardState{}
		}
	}
}

func hsStr(h *pb.HardState) string {
	return fmt.Sprintf("{t%d v%d c%d}", h.GetTerm(), h.GetVote(), h.GetCommit())
}

func (m *MonC07) OnEvent(w *World, rec *StepRec) []*Violation {
	if rec.Node < 0 {
		return nil
	}
	var out []*Violation
	i := rec.Node
	n := w.Nodes[i]
	for _, hs := range rec.HardStates {
		old := m.last[i]
		switch {
		case hs.GetTerm() < old.GetTerm():
			out = append(out, &Violation{"C07", "term-monotone", fmt.Sprintf("node %d exposed hard state %s after %s", n.ID, hsStr(hs), hsStr(old))})
		case hs.GetCommit() < old.GetCommit():
			out = append(out, &Violation{"C07", "commit-monotone", fmt.Sprintf("node %d exposed hard state %s after %s", n.ID, hsStr(hs), hsStr(old))})
		case hs.GetTerm() == old.GetTerm() && hs.GetVote() != old.GetVote() && old.GetVote() != 0:
			out = append(out, &Violation{"C07", "vote-once-per-term", fmt.Sprintf("node %d exposed hard state %s after %s", n.ID, hsStr(hs), hsStr(old))})
		}
		m.own()
		m.last[i] = cloneHS(hs)
	}
	// every change of term, vote or commit index is exposed by the next Ready (a change that is
	// never exposed is never persisted)
	if rd := rec.Ready; rd != nil && rec.Pre != nil {
		k := m.known[i]
		if pre := rec.Pre; pre.Term != k.GetTerm() || pre.Vote != k.GetVote() || pre.Committed != k.GetCommit() {
			if rd.HardState == nil || rd.HardState.GetTerm() != pre.Term || rd.HardState.GetVote() != pre.Vote || rd.HardState.GetCommit() != pre.Committed {
				got := "none"
				if rd.HardState != nil {
					got = hsStr(rd.HardState)
				}
				out = append(out, &Violation{"C07", "hard-state-change-exposed", fmt.Sprintf("node %d is at {t%d v%d c%d}, the application last saw %s, but the Ready exposes %s", n.ID, pre.Term, pre.Vote, pre.Committed, hsStr(k), got)})
			}
		}
		if rd.HardState != nil && (rd.HardState.GetTerm() != 0 || rd.HardState.GetVote() != 0 || rd.HardState.GetCommit() != 0) {
			m.own()
			m.known[i] = cloneHS(rd.HardState)
		}
	}
	// async storage writes: the hard state a Ready exposes is what its MsgStorageAppend tells the
	// append thread to persist (otherwise it is exposed but never becomes durable)
	if rd := rec.Ready; rd != nil && n.Cfg.Async && rd.HardState != nil && (rd.HardState.GetTerm() != 0 || rd.HardState.GetVote() != 0 || rd.HardState.GetCommit() != 0) {
		carried := false
		for _, q := range rd.Messages {
			if q.GetType() == pb.MsgStorageAppend {
				carried = q.GetTerm() == rd.HardState.GetTerm() && q.GetVote() == rd.HardState.GetVote() && q.GetCommit() == rd.HardState.GetCommit()
			}
		}
		if !carried {
			out = append(out, &Violation{"C07", "exposed-hard-state-is-persisted", fmt.Sprintf("node %d exposed hard state %s in a Ready whose MsgStorageAppend does not carry it", n.ID, hsStr(rd.HardState))})
		}
	}
	// messages of a composite Ready+crash event were released before the crash: they are judged
	// against the term this incarnation started from, not the next one's
	for _, msg := range rec.Released {
		if msg.GetFrom() != n.ID || msg.GetTerm() == 0 {
			continue
		}
		if msg.GetTerm() < m.startTerm[i] {
			out = append(out, &Violation{"C07", "acts-below-persisted-term", fmt.Sprintf("node %d released %s at term %d although it restarted from persisted term %d", n.ID, msg.GetType(), msg.GetTerm(), m.startTerm[i])})
		}
	}
	if rec.Restarted && !w.Dead {
		d := w.DiskHS(i)
		if d == nil {
			d = &pb.HardState{}
		}
		vs := n.vs()
		if vs.Term != d.GetTerm() || vs.Vote != d.GetVote() || vs.Committed != d.GetCommit() {
			out = append(out, &Violation{"C07", "restart-from-disk", fmt.Sprintf("node %d restarted as {t%d v%d c%d} but its disk holds %s", n.ID, vs.Term, vs.Vote, vs.Committed, hsStr(d))})
		}
		m.own()
		m.last[i] = cloneHS(d)
		m.startTerm[i] = d.GetTerm()
		m.known[i] = &pb.HardState{Term: new(vs.Term), Vote: new(vs.Vote), Commit: new(vs.Committed)}
	}
	return out
}

func (m *MonC07) Clone() Monitor {
	m.shared = true
	c := *m
	return &c
}

func (m *MonC07) own() {
	if m.shared {
		m.last, m.startTerm, m.known, m.shared = append([]*pb.HardState(nil), m.last...), append([]uint64(nil), m.startTerm...), append([]*pb.HardState(nil), m.known...), false
	}
}

func (m *MonC07) History(b []byte) []byte {
	for i := range m.last {
		b = binary.AppendUvarint(b, m.last[i].GetTerm())
		b = binary.AppendUvarint(b, m.last[i].GetVote())
		b = binary.AppendUvarint(b, m.last[i].GetCommit())
		b = binary.AppendUvarint(b, m.startTerm[i])
		b = binary.AppendUvarint(b, m.known[i].GetTerm())
		b = binary.AppendUvarint(b, m.known[i].GetVote())
		b = binary.AppendUvarint(b, m.known[i].GetCommit())
	}
	return b
}

// ---------------------------------------------------------------- C14

// MonC14 turns a library panic into a violation.
type MonC14 struct{}

func NewMonC14() *MonC14                 { return &MonC14{} }
func (m *MonC14) Prop() string          { return "C14" }
func (m *MonC14) Init(w *World)         {}
func (m *MonC14) History(b []byte) []byte { return b }
func (m *MonC14) Clone() Monitor          { return m }
func (m *MonC14) OnEvent(w *World, rec *StepRec) []*Violation {
	if rec.Panic == nil {
		return nil
	}
	return []*Violation{{"C14", "no-panic", fmt.Sprintf("node %d panicked during %v: %v", rec.Node+1, rec.Ev, rec.Panic)}}
}
