package mc

import (
	"fmt"
	"time"
)

// ApplyScript executes the next scripted operation (budgets are not charged).
func (w *World) ApplyScript() *StepRec {
	ev := w.Sc.Script[w.PC]
	w.PC++
	saved := w.Budget
	rec := w.Apply(ev)
	w.Budget = saved
	return rec
}

// scriptMarker is the pseudo event "run the next scripted operation".
var scriptMarker = Event{Kind: numEventKinds}

func (w *World) applyChoice(ev Event) *StepRec {
	if ev == scriptMarker {
		return w.ApplyScript()
	}
	return w.Apply(ev)
}

// nextDefault is the default scheduler of D-DFS: pending local work, then the
// oldest message, and only when everything is quiet the next scripted operation.
func (w *World) nextDefault() (Event, bool) {
	if w.Dead {
		return Event{}, false
	}
	if ev, ok := w.defaultChoice(); ok {
		return ev, true
	}
	if w.PC < len(w.Sc.Script) {
		return scriptMarker, true
	}
	// the script has ended: stalled storage threads resume
	for _, n := range w.Nodes {
		if n.AppendPaused {
			return Event{Kind: EvPauseAppend, Node: uint8(n.ID), Arg: 0}, true
		}
		if n.ReadyPaused {
			return Event{Kind: EvPauseReady, Node: uint8(n.ID), Arg: 0}, true
		}
		if n.ApplyPaused {
			return Event{Kind: EvPauseApply, Node: uint8(n.ID), Arg: 0}, true
		}
	}
	return Event{}, false
}

type ddKey struct {
	k [16]byte
}

type ddfs struct {
	sc      *Scenario
	mf      MonitorFactory
	lim     Limits
	res     *Result
	visited map[[16]byte]int8 // key -> fewest deviations with which it was expanded
	bound   int
	stop    bool
	onEnd   func(w *World) []*Violation
	maxLen  int
	digest  uint64
	validateEvery int64
}

func replayChoices(sc *Scenario, mf MonitorFactory, path []Event) (*World, *StepRec) {
	w := NewWorld(sc, mf())
	var rec *StepRec
	w.runPrefix()
	for _, ev := range path {
		rec = w.applyChoice(ev)
	}
	return w, rec
}

// replayChoicesCheck is replayChoices that also returns the first violation met on
// the way together with the length of the prefix that produced it. A re-execution
// from scratch keeps real memory aliasing between the node and slices it handed
// out earlier (copy-on-write clones do not), so it can expose violations the
// incremental exploration cannot.
func replayChoicesCheck(sc *Scenario, mf MonitorFactory, path []Event) (*World, []*Violation, int) {
	w := NewWorld(sc, mf())
	w.runPrefix()
	for i, ev := range path {
		rec := w.applyChoice(ev)
		if len(rec.Violations) > 0 {
			return w, rec.Violations, i + 1
		}
	}
	return w, nil, len(path)
}

// DescribeChoices renders a D-DFS execution (explicit choice list) in readable form.
func DescribeChoices(sc *Scenario, mf MonitorFactory, path []Event) []string {
	w := NewWorld(sc, mf())
	var out []string
	w.runPrefix()
	for _, ev := range path {
		s := ""
		if ev == scriptMarker {
			s = "script: " + w.Sc.Script[w.PC].String()
		} else {
			s = ev.String()
		}
		rec := w.applyChoice(ev)
		if d := rec.Desc(); d != "" {
			s += "  " + d
		}
		if rec.OpErr != nil {
			s += "  err=" + rec.OpErr.Error()
		}
		if rec.Panic != nil {
			s += fmt.Sprintf("  PANIC: %v", rec.Panic)
		}
		if rec.Restarted {
			s += fmt.Sprintf("  restarted(applied=%d)", rec.RestartApplied)
		}
		for _, v := range rec.Violations {
			s += "  VIOLATION " + v.String()
		}
		out = append(out, s)
	}
	out = append(out, "final: "+w.outcome())
	return out
}

func (d *ddfs) found(v []*Violation, path []Event) {
	p := append([]Event(nil), path...)
	for _, x := range v {
		addFound(d.res, d.lim, &Found{V: x, Scenario: d.sc.Name, Path: p})
	}
	if unknownFound(d.res) >= d.lim.MaxFound {
		d.stop = true
	}
}

// run continues the execution held in w (positioned after path, with devs
// deviations used) by default choices to completion. At every decision point
// with budget left it forks a clone for each alternative and recurses.
func (d *ddfs) run(w *World, path []Event, devs int) {
	if d.stop {
		return
	}
	if !d.lim.Deadline.IsZero() && d.res.Executions%32 == 0 && time.Now().After(d.lim.Deadline) {
		d.stop = true
		d.res.Exhaustive = false
		d.res.Caps = append(d.res.Caps, fmt.Sprintf("deadline reached during deviation bound %d after %d executions", d.bound, d.res.Executions))
		return
	}
	d.res.Executions++
	complete := false
	for step := 0; ; step++ {
		if w.Dead || d.stop {
			break
		}
		if step > d.maxLen {
			if d.lim.Convergence {
				// convergence mode: without ticks and faults the system must fall silent
				d.found([]*Violation{{"C15", "falls-silent", fmt.Sprintf("the default (fault-free, tick-free) schedule is still exchanging messages after %d steps: %s", d.maxLen, w.outcome())}}, path)
				break
			}
			d.res.Exhaustive = false
			if len(d.res.Caps) < 5 {
				d.res.Caps = append(d.res.Caps, fmt.Sprintf("execution longer than %d steps cut", d.maxLen))
			}
			break
		}
		def, ok := w.nextDefault()
		if devs < d.bound {
			key := w.Key(true)
			if prev, seen := d.visited[key]; seen && int(prev) <= devs {
				// the continuation from here was explored before with at least as much budget
				d.res.Counters["pruned_runs"]++
				break
			}
			d.visited[key] = int8(devs)
			d.res.States++
			var alts []Event
			for _, ev := range w.Enabled() {
				if ok && ev == def {
					continue
				}
				alts = append(alts, ev)
			}
			if w.PC < len(w.Sc.Script) && !(ok && def == scriptMarker) {
				alts = append(alts, scriptMarker)
			}
			for ai, alt := range alts {
				if d.stop {
					break
				}
				var c *World
				if d.sc.NoClone {
					c, _ = replayChoices(d.sc, d.mf, path)
					d.res.Replays++
				} else {
					c = w.Clone()
				}
				if ai == 0 && d.res.States%16 == 1 {
					if c.Key(true) != key {
						d.res.HarnessErr = "clone differs from its source"
						d.stop = true
						break
					}
				}
				r := c.applyChoice(alt)
				d.res.Transitions++
				np := append(append([]Event(nil), path...), alt)
				if len(r.Violations) > 0 {
					d.found(r.Violations, np)
					continue
				}
				d.run(c, np, devs+1)
			}
			if len(alts) > 0 && d.res.States%16 == 1 && w.Key(true) != key {
				d.res.HarnessErr = "state changed while its clones were stepped (aliasing)"
				d.stop = true
			}
		}
		if !ok {
			complete = true
			break
		}
		r := w.applyChoice(def)
		path = append(path, def)
		d.res.Transitions++
		if len(r.Violations) > 0 {
			d.found(r.Violations, path)
			break
		}
	}
	if len(path) > d.res.MaxDepth {
		d.res.MaxDepth = len(path)
	}
	if complete && !d.stop {
		d.res.Terminal++
		d.res.Outcomes[w.outcome()]++
		if d.onEnd != nil {
			if v := d.onEnd(w); len(v) > 0 {
				d.found(v, path)
			}
		}
		if d.res.Terminal%d.validateEvery == 1 || d.validateEvery == 1 || d.lim.Determinism {
			// validate this execution against the implementation: re-run the whole
			// choice list on fresh objects and compare the final state key
			// C19: map iteration order cannot be enumerated, only repeated: the same choice list is
			// re-executed several times on fresh objects and every run has to agree
			reps := 1
			if d.lim.Determinism {
				reps = 6
			}
			var w2 *World
			var vs []*Violation
			var at int
			for rep := 0; rep < reps; rep++ {
				w2, vs, at = replayChoicesCheck(d.sc, d.mf, path)
				d.res.Replays++
				if len(vs) > 0 || w2.Key(true) != w.Key(true) || (d.lim.Determinism && w2.Out != w.Out) {
					break
				}
			}
			if len(vs) > 0 {
				// only the from-scratch execution shows it (e.g. aliasing with slices handed out earlier)
				d.found(vs, path[:at])
			} else if w2.Key(true) != w.Key(true) || (d.lim.Determinism && w2.Out != w.Out) {
				if d.lim.Determinism {
					d.found([]*Violation{{"C19", "same-inputs-same-outputs", fmt.Sprintf("re-executing the execution on fresh objects gave a different state or different outputs (outputs equal: %v)", w2.Out == w.Out)}}, path)
				} else {
					d.res.HarnessErr = fmt.Sprintf("divergence: execution re-run from scratch ends in a different state: %v", path)
					d.stop = true
				}
			}
			if d.lim.Determinism {
				d.digest = d.digest*1099511628211 ^ w.Out
			}
		}
		if len(d.res.Samples) < 2 && (d.res.Terminal == 1 || d.res.Terminal == 200) {
			d.res.Samples = append(d.res.Samples, DescribeChoices(d.sc, d.mf, path))
		}
	}
}

// DevDFS enumerates every execution of the scenario's script with at most
// sc.DevBound deviations from the default schedule (iterating the bound).
func DevDFS(sc *Scenario, mf MonitorFactory, lim Limits, onEnd func(w *World) []*Violation) *Result {
	start := time.Now()
	res := &Result{Scenario: sc.Name, Strategy: "D-DFS", Outcomes: map[string]int64{}, Exhaustive: true, Counters: map[string]int{}}
	if lim.MaxFound <= 0 {
		lim.MaxFound = 20
	}
	completed := -1
	for b := 0; b <= sc.DevBound; b++ {
		d := &ddfs{sc: sc, mf: mf, lim: lim, res: res, visited: map[[16]byte]int8{}, bound: b, onEnd: onEnd, maxLen: 1500, validateEvery: lim.validateEvery()}
		w0, _ := replayChoices(sc, mf, nil)
		d.run(w0, nil, 0)
		if d.stop {
			break
		}
		completed = b
		if lim.Determinism {
			res.Digest = fmt.Sprintf("%s%016x", res.Digest, d.digest)
		}
		if unknownFound(res) > 0 {
			break
		}
	}
	res.DevBound = completed
	if completed < sc.DevBound && unknownFound(res) == 0 {
		res.Exhaustive = false
	}
	for _, f := range res.Found {
		f.Trace = DescribeChoices(sc, mf, f.Path)
	}
	res.WallS = time.Since(start).Seconds()
	return res
}
