package mc

import (
	"crypto/sha256"
	"encoding/binary"
	"fmt"
	"sort"

	"google.golang.org/protobuf/proto"

	"go.etcd.io/raft/v3"
	pb "go.etcd.io/raft/v3/raftpb"
)

var detMarshal = proto.MarshalOptions{Deterministic: true}

func enc(m proto.Message) []byte {
	b, err := detMarshal.Marshal(m)
	if err != nil {
		panic(err)
	}
	return b
}

// NetMsg is an in-flight message: wire bytes plus a decoded, immutable copy.
type NetMsg struct {
	Enc     string
	M       *pb.Message
	Seq     int
	Delayed bool // frozen by EvDelay: not delivered by the default scheduler before the script has ended
}

// AppState is the application's replicated state machine: a hash chain over the
// applied entries plus the configuration after the last applied change.
type AppState struct {
	Applied uint64
	Chain   uint64
	CS      *pb.ConfState
}

func chainStep(chain uint64, e *pb.Entry) uint64 {
	var b [32]byte
	binary.LittleEndian.PutUint64(b[0:], chain)
	binary.LittleEndian.PutUint64(b[8:], e.GetIndex())
	binary.LittleEndian.PutUint64(b[16:], e.GetTerm())
	binary.LittleEndian.PutUint64(b[24:], uint64(e.GetType()))
	h := sha256.New()
	h.Write(b[:])
	h.Write(e.GetData())
	return binary.LittleEndian.Uint64(h.Sum(nil))
}

func snapData(chain uint64) []byte {
	if chain == 0 {
		return nil
	}
	return binary.LittleEndian.AppendUint64(nil, chain)
}

func snapChain(data []byte) uint64 {
	if len(data) != 8 {
		return 0
	}
	return binary.LittleEndian.Uint64(data)
}

// Node is one slot of the cluster.
type Node struct {
	ID       uint64
	Inc      int
	Cfg      NodeCfg
	RN       *raft.RawNode
	Disk     *raft.MemoryStorage
	SyncedHS *pb.HardState
	App      AppState

	Pending *raft.Ready // sync split mode: accepted Ready not yet advanced
	Stage   int         // 1: persisted+sent, apply outstanding; 2: Advance outstanding

	AppendQ, ApplyQ, LocalQ []*pb.Message
	SnapObl                 []uint64 // peers to which a MsgSnap was released and not yet reported
	Stopped                 bool
	ApplyPaused             bool // async: the apply thread is not scheduled
	AppendPaused            bool // async: the append thread is not scheduled
	ReadyPaused             bool // the application does not call Ready for a while

	shared   bool // referenced by more than one world: copy before writing
	vsCache  *raft.VerifState
	vsValid  bool
	fp       []byte // cached per-node part of the state key
	logCache *LogView
}

// vs returns the (cached) dump of the node.
func (n *Node) vs() *raft.VerifState {
	if !n.vsValid {
		v := n.RN.VerifState()
		n.vsCache = &v
		n.vsValid = true
	}
	return n.vsCache
}

// ConfApplied records the result of one ApplyConfChange.
type ConfApplied struct {
	Index uint64
	CS    *pb.ConfState
}

// StepRec is everything the harness observed while executing one event.
type StepRec struct {
	Ev        Event
	Node      int // index of the touched node, -1 if none
	Pre       *raft.VerifState
	PreLog    *LogView
	PreDiskHS *pb.HardState

	Delivered *pb.Message
	StepErr   error
	OpErr     error

	Ready       *raft.Ready
	Storage     *pb.Message   // async: the MsgStorageAppend/Apply handled by this event
	QueuedLocal []*pb.Message // async: storage messages queued by this Ready
	Released    []*pb.Message // put on the network (after persistence where the contract demands it)
	Blocked     []*pb.Message // released but cut off by a partition rule
	LocalStep   []*pb.Message // self-addressed storage responses stepped
	HardStates  []*pb.HardState
	PersistSnap *pb.Snapshot
	PersistEnts []*pb.Entry
	PersistHS   *pb.HardState
	Synced      bool

	AppliedSnap *pb.Snapshot
	AppliedEnts []*pb.Entry
	ConfApplied []ConfApplied
	ReadStates  []raft.ReadState

	PropPayloads [][]byte
	MixedPayloads [][]byte // normal entries in the same MsgProp as a configuration change
	ConfLast      bool     // ... which precede it (otherwise they follow it)
	PropType     pb.EntryType
	ReadCtx      []byte

	Crashed        bool
	CrashStage     int
	Restarted      bool
	ConfCancelled  []uint64 // indexes of committed conf changes the application cancelled (applied with node id 0)
	ManualSnap     bool     // the MsgSnap released in this step was sent by the application, not produced by raft
	RestartApplied uint64
	CommitRepaired bool

	Panic      any
	Violations []*Violation
	msg        *pb.Message
}

// Orig is the delivered message as it was on the wire (raft may rewrite the copy
// it is handed, e.g. when it neutralises a configuration change).
func (r *StepRec) Orig() *pb.Message { return r.msg }

// Desc renders the delivered/dropped message.
func (r *StepRec) Desc() string {
	if r.msg == nil {
		return ""
	}
	return raft.DescribeMessage(r.msg, nil)
}

// Violation is a failed oracle.
type Violation struct {
	Prop   string
	Oracle string
	Detail string
}

func (v *Violation) String() string { return fmt.Sprintf("%s/%s: %s", v.Prop, v.Oracle, v.Detail) }

// World is the complete state of one execution.
type World struct {
	Sc      *Scenario
	Nodes   []*Node
	Net     []NetMsg // sorted by Enc (stable in Seq)
	seq     int
	Budget  [NumBudgets]int
	Blocked [][]bool
	HoldFrom []uint8 // per node id: outgoing messages are born delayed (0 = none, 0xff = all, otherwise only those addressed to that peer)
	PropSeq int
	ReadSeq int
	PC      int // script position
	Mons    []Monitor
	Dead    bool // a panic happened; no successors
	LastPanic any
	Steps   int
	Out     uint64 // running output hash (C19); not part of the key
	keyBuf  []byte
	Counters map[string]int
}

func cloneHS(hs *pb.HardState) *pb.HardState {
	if hs == nil {
		return nil
	}
	return proto.Clone(hs).(*pb.HardState)
}

func hsEqual(a, b *pb.HardState) bool {
	return a.GetTerm() == b.GetTerm() && a.GetVote() == b.GetVote() && a.GetCommit() == b.GetCommit()
}

// InitIndex/InitTerm is the log position of the bootstrap snapshot of the initial members.
const (
	InitIndex = 1
	InitTerm  = 1
)

// NewWorld builds the initial world of a scenario.
func NewWorld(sc *Scenario, mons []Monitor) *World {
	w := &World{Sc: sc, Budget: sc.Budget, Mons: mons, Counters: map[string]int{}}
	w.HoldFrom = make([]uint8, sc.N+1)
	w.Blocked = make([][]bool, sc.N+1)
	for i := range w.Blocked {
		w.Blocked[i] = make([]bool, sc.N+1)
	}
	member := map[uint64]bool{}
	for _, v := range sc.Voters {
		member[v] = true
	}
	for _, v := range sc.Learners {
		member[v] = true
	}
	initCS := &pb.ConfState{Voters: sc.Voters, Learners: sc.Learners}
	for i := 0; i < sc.N; i++ {
		n := &Node{ID: uint64(i + 1), Cfg: sc.cfg(i), Disk: raft.NewMemoryStorage()}
		if member[n.ID] {
			// members start from a snapshot at (InitIndex, InitTerm) carrying the initial
			// configuration, so that a node added later has to be brought in by snapshot
			snap := &pb.Snapshot{Metadata: &pb.SnapshotMetadata{Index: new(uint64(InitIndex)), Term: new(uint64(InitTerm)), ConfState: proto.Clone(initCS).(*pb.ConfState)}}
			if err := n.Disk.ApplySnapshot(snap); err != nil {
				panic(err)
			}
			n.App.CS = proto.Clone(initCS).(*pb.ConfState)
			n.App.Applied = InitIndex
		} else {
			n.App.CS = &pb.ConfState{}
		}
		w.Nodes = append(w.Nodes, n)
		w.start(n, 0)
	}
	for _, m := range w.Mons {
		m.Init(w)
	}
	return w
}

func (w *World) raftConfig(n *Node, applied uint64) *raft.Config {
	c := n.Cfg
	cfg := &raft.Config{
		ID: n.ID, ElectionTick: c.ElectionTick, HeartbeatTick: c.HeartbeatTick,
		Storage: n.Disk, Applied: applied,
		AsyncStorageWrites: c.Async, MaxSizePerMsg: c.MaxSizePerMsg,
		MaxCommittedSizePerReady: c.MaxCommittedSize, MaxUncommittedEntriesSize: c.MaxUncommitted,
		MaxInflightMsgs: c.MaxInflight, MaxInflightBytes: c.MaxInflightBytes,
		CheckQuorum: c.CheckQuorum, PreVote: c.PreVote, Logger: theLogger,
		DisableProposalForwarding: c.DisableForwarding, DisableConfChangeValidation: c.DisableCCValidation,
		StepDownOnRemoval: c.StepDownOnRemoval,
	}
	if c.LeaseRead {
		cfg.ReadOnlyOption = raft.ReadOnlyLeaseBased
	}
	return cfg
}

func (w *World) start(n *Node, applied uint64) {
	rn, err := raft.NewRawNode(w.raftConfig(n, applied))
	if err != nil {
		panic(err)
	}
	n.RN = rn
	w.touch(n)
}

// touch re-pins the election timeout and refreshes the cached dump.
func (w *World) touch(n *Node) {
	n.RN.VerifSetRandomizedElectionTimeout(n.Cfg.Timeout)
	n.vsValid = false
	n.fp = nil
	n.logCache = nil
}

// ---------------------------------------------------------------- log views

// LogView is a node's logical log: stable storage overlaid with the unstable tail.
type LogView struct {
	BaseIndex, BaseTerm uint64
	Ents                []*pb.Entry // Ents[k] has index BaseIndex+1+k
}

func (l *LogView) Last() uint64 { return l.BaseIndex + uint64(len(l.Ents)) }
func (l *LogView) LastTerm() uint64 {
	if len(l.Ents) == 0 {
		return l.BaseTerm
	}
	return l.Ents[len(l.Ents)-1].GetTerm()
}

// Term returns the term at index i and whether the view knows it.
func (l *LogView) Term(i uint64) (uint64, bool) {
	if i == l.BaseIndex {
		return l.BaseTerm, true
	}
	if i < l.BaseIndex || i > l.Last() {
		return 0, false
	}
	return l.Ents[i-l.BaseIndex-1].GetTerm(), true
}

func (l *LogView) Entry(i uint64) *pb.Entry {
	if i <= l.BaseIndex || i > l.Last() {
		return nil
	}
	return l.Ents[i-l.BaseIndex-1]
}

func diskView(d *raft.MemoryStorage) *LogView {
	_, _, ents := d.VerifDump()
	return &LogView{BaseIndex: ents[0].GetIndex(), BaseTerm: ents[0].GetTerm(), Ents: ents[1:]}
}

func logicalLog(d *raft.MemoryStorage, vs *raft.VerifState) *LogView {
	if vs.UnstableSnapshot != nil {
		md := vs.UnstableSnapshot.GetMetadata()
		return &LogView{BaseIndex: md.GetIndex(), BaseTerm: md.GetTerm(), Ents: vs.UnstableEntries}
	}
	dv := diskView(d)
	if len(vs.UnstableEntries) == 0 && vs.UnstableOffset > dv.Last() {
		return dv
	}
	keep := dv.Ents
	if vs.UnstableOffset <= dv.BaseIndex {
		// cannot happen without an unstable snapshot; be defensive
		keep = nil
	} else if vs.UnstableOffset-dv.BaseIndex-1 < uint64(len(keep)) {
		keep = keep[:vs.UnstableOffset-dv.BaseIndex-1]
	}
	out := make([]*pb.Entry, 0, len(keep)+len(vs.UnstableEntries))
	out = append(out, keep...)
	out = append(out, vs.UnstableEntries...)
	return &LogView{BaseIndex: dv.BaseIndex, BaseTerm: dv.BaseTerm, Ents: out}
}

// Log returns the logical log of node i (cached until the node is touched).
func (w *World) Log(i int) *LogView {
	n := w.Nodes[i]
	if n.logCache == nil {
		n.logCache = logicalLog(n.Disk, n.vs())
	}
	return n.logCache
}

func (w *World) DiskHS(i int) *pb.HardState {
	hs, _, _ := w.Nodes[i].Disk.VerifDump()
	return hs
}

func (w *World) DiskSnap(i int) *pb.Snapshot {
	_, s, _ := w.Nodes[i].Disk.VerifDump()
	return s
}

// ---------------------------------------------------------------- network

func (w *World) release(rec *StepRec, m *pb.Message) {
	from, to := m.GetFrom(), m.GetTo()
	if to == 0 || to > uint64(w.Sc.N) || from > uint64(w.Sc.N) {
		// addressed to an id the scenario has no slot for: lost
		rec.Blocked = append(rec.Blocked, m)
		return
	}
	if m.GetType() == pb.MsgSnap {
		n := w.Nodes[from-1]
		found := false
		for _, p := range n.SnapObl {
			if p == to {
				found = true
			}
		}
		if !found {
			n.SnapObl = append(n.SnapObl, to)
			sort.Slice(n.SnapObl, func(a, b int) bool { return n.SnapObl[a] < n.SnapObl[b] })
		}
	}
	if w.Blocked[from][to] || w.Nodes[to-1].Stopped {
		rec.Blocked = append(rec.Blocked, m)
		return
	}
	b := enc(m)
	cp := &pb.Message{}
	if err := proto.Unmarshal(b, cp); err != nil {
		panic(err)
	}
	rec.Released = append(rec.Released, cp)
	w.seq++
	nm := NetMsg{Enc: string(b), M: cp, Seq: w.seq, Delayed: (w.Sc.SlowSnap && m.GetType() == pb.MsgSnap) || w.HoldFrom[from] == 0xff || (w.HoldFrom[from] != 0 && uint64(w.HoldFrom[from]) == to)}
	// insert sorted by (Enc, Seq)
	k := sort.Search(len(w.Net), func(i int) bool { return w.Net[i].Enc > nm.Enc })
	w.Net = append(w.Net, NetMsg{})
	copy(w.Net[k+1:], w.Net[k:])
	w.Net[k] = nm
}

// Distinct returns the positions in Net of the first copy of each distinct message.
func (w *World) Distinct() []int {
	var out []int
	for i := range w.Net {
		if i == 0 || w.Net[i].Enc != w.Net[i-1].Enc {
			out = append(out, i)
		}
	}
	return out
}

func (w *World) removeNet(pos int) {
	w.Net = append(w.Net[:pos], w.Net[pos+1:]...)
}

// ---------------------------------------------------------------- application

func (w *World) appRestoreSnapshot(n *Node, s *pb.Snapshot) {
	md := s.GetMetadata()
	n.App.Applied = md.GetIndex()
	n.App.Chain = snapChain(s.GetData())
	n.App.CS = proto.Clone(pb.EnsureConfState(md.GetConfState())).(*pb.ConfState)
}

func (w *World) appApply(n *Node, rec *StepRec, ents []*pb.Entry) {
	for _, e := range ents {
		rec.AppliedEnts = append(rec.AppliedEnts, e)
		var cc pb.ConfChangeI
		switch e.GetType() {
		case pb.EntryConfChange:
			c := &pb.ConfChange{}
			if err := proto.Unmarshal(e.GetData(), c); err != nil {
				panic(err)
			}
			cc = c
		case pb.EntryConfChangeV2:
			c := &pb.ConfChangeV2{}
			if err := proto.Unmarshal(e.GetData(), c); err != nil {
				panic(err)
			}
			cc = c
		}
		var cs *pb.ConfState
		if cc != nil {
			// raft must always hear about a conf change it hands out, even if the
			// state machine has already applied the entry (re-delivery after restart).
			// Like etcd, the application validates a committed change against the
			// configuration it is applied to and cancels an invalid one (one that would
			// remove the last voter) by applying it with the node id zeroed, which raft
			// documents as the way to skip a change downstream of raft.
			cur := n.RN.VerifState() // not the cached dump: earlier entries of this batch may have changed the configuration
			if _, err := confOfState(&cur).ApplyV2(int(cc.AsV2().GetTransition()), toChanges(cc.AsV2().GetChanges())); err != nil {
				cc = &pb.ConfChange{Type: pb.ConfChangeAddNode.Enum(), NodeId: new(uint64(0))}
				rec.ConfCancelled = append(rec.ConfCancelled, e.GetIndex())
				w.Counters["conf_changes_cancelled_by_application"]++
			}
			cs = n.RN.ApplyConfChange(cc)
			rec.ConfApplied = append(rec.ConfApplied, ConfApplied{Index: e.GetIndex(), CS: cs})
		}
		if e.GetIndex() <= n.App.Applied {
			continue // idempotent state machine
		}
		if cs != nil {
			n.App.CS = cs
		}
		n.App.Chain = chainStep(n.App.Chain, e)
		n.App.Applied = e.GetIndex()
		if cs != nil {
			// Like etcd (which builds the snapshot it sends from its current state),
			// the application keeps the snapshot raft may send at least as new as the
			// last membership change; otherwise a node added after the latest snapshot
			// could never be caught up once the log is compacted (raft refuses
			// snapshots whose membership does not contain the receiver).
			if dv := diskView(n.Disk); n.App.Applied <= dv.Last() && n.App.Applied > dv.BaseIndex {
				_, _ = n.Disk.CreateSnapshot(n.App.Applied, n.App.CS, snapData(n.App.Chain))
			}
		}
	}
}

func (w *World) persist(n *Node, rec *StepRec, snap *pb.Snapshot, ents []*pb.Entry, hs *pb.HardState, synced bool, upto int) {
	if upto >= StageSnap && !raft.IsEmptySnap(snap) {
		rec.PersistSnap = snap
		if err := n.Disk.ApplySnapshot(snap); err != nil {
			panic(RaftPanic{"storage refused the snapshot raft asked to persist: " + err.Error()})
		}
	}
	if upto >= StageEntries && len(ents) > 0 {
		rec.PersistEnts = ents
		if err := n.Disk.Append(ents); err != nil {
			panic(RaftPanic{"storage refused the entries raft asked to persist: " + err.Error()})
		}
	}
	if upto >= StageHard {
		if !raft.IsEmptyHardState(hs) {
			rec.PersistHS = hs
			n.Disk.SetHardState(cloneHS(hs))
		}
		if synced {
			rec.Synced = true
			cur, _, _ := n.Disk.VerifDump()
			n.SyncedHS = cloneHS(cur)
		}
	}
}

func isLocalTarget(id uint64) bool { return raft.IsLocalMsgTarget(id) }

// doReady runs the node's Ready handling. upto < 0 means "to completion";
// otherwise the handling stops after the given persistence stage (crash point).
func (w *World) doReady(n *Node, rec *StepRec, upto int) {
	rd := n.RN.Ready()
	rec.Ready = &rd
	if len(rd.ReadStates) > 0 {
		rec.ReadStates = append(rec.ReadStates, rd.ReadStates...)
	}
	if n.Cfg.Async {
		for _, m := range rd.Messages {
			switch m.GetTo() {
			case raft.LocalAppendThread:
				if m.Term != nil || m.Vote != nil || m.Commit != nil {
					rec.HardStates = append(rec.HardStates, &pb.HardState{Term: m.Term, Vote: m.Vote, Commit: m.Commit})
				}
				n.AppendQ = append(n.AppendQ, m)
				rec.QueuedLocal = append(rec.QueuedLocal, m)
			case raft.LocalApplyThread:
				n.ApplyQ = append(n.ApplyQ, m)
				rec.QueuedLocal = append(rec.QueuedLocal, m)
			default:
				w.release(rec, m)
			}
		}
		return
	}
	if !raft.IsEmptyHardState(rd.HardState) {
		rec.HardStates = append(rec.HardStates, rd.HardState)
	}
	stage := StageSent
	if upto >= 0 {
		stage = upto
	}
	w.persist(n, rec, rd.Snapshot, rd.Entries, rd.HardState, rd.MustSync, stage)
	if stage >= StageSent {
		for _, m := range rd.Messages {
			w.release(rec, m)
		}
	}
	if upto >= 0 {
		return
	}
	if w.Sc.SplitReady {
		n.Pending = &rd
		if !raft.IsEmptySnap(rd.Snapshot) || len(rd.CommittedEntries) > 0 {
			n.Stage = 1
		} else {
			n.Stage = 2
		}
		return
	}
	w.doReadyApply(n, rec, &rd)
	n.RN.Advance(rd)
}

func (w *World) doReadyApply(n *Node, rec *StepRec, rd *raft.Ready) {
	if !raft.IsEmptySnap(rd.Snapshot) {
		rec.AppliedSnap = rd.Snapshot
		w.appRestoreSnapshot(n, rd.Snapshot)
	}
	w.appApply(n, rec, rd.CommittedEntries)
}

func (w *World) stepLocal(n *Node, rec *StepRec, m *pb.Message) {
	rec.LocalStep = append(rec.LocalStep, m)
	_ = n.RN.Step(m)
}

func (w *World) routeResponses(n *Node, rec *StepRec, resps []*pb.Message) {
	for _, r := range resps {
		if r.GetTo() == n.ID {
			if w.Sc.LazyLocal {
				n.LocalQ = append(n.LocalQ, r)
			} else {
				w.stepLocal(n, rec, r)
			}
		} else {
			w.release(rec, r)
		}
	}
}

func (w *World) doAppend(n *Node, rec *StepRec, upto int) {
	if len(n.AppendQ) == 0 {
		return // scripted step of an idle append thread
	}
	m := n.AppendQ[0]
	n.AppendQ = n.AppendQ[1:]
	rec.Storage = m
	var hs *pb.HardState
	if m.Term != nil || m.Vote != nil || m.Commit != nil {
		hs = &pb.HardState{Term: m.Term, Vote: m.Vote, Commit: m.Commit}
	}
	stage := StageHard
	if upto >= 0 {
		stage = upto
	}
	w.persist(n, rec, m.GetSnapshot(), m.GetEntries(), hs, len(m.GetResponses()) > 0, stage)
	if upto >= 0 {
		return
	}
	if !raft.IsEmptySnap(m.GetSnapshot()) {
		// the append thread installs the snapshot into the state machine as part of the write
		rec.AppliedSnap = m.GetSnapshot()
		w.appRestoreSnapshot(n, m.GetSnapshot())
	}
	w.routeResponses(n, rec, m.GetResponses())
}

func (w *World) doApply(n *Node, rec *StepRec) {
	m := n.ApplyQ[0]
	n.ApplyQ = n.ApplyQ[1:]
	rec.Storage = m
	w.appApply(n, rec, m.GetEntries())
	w.routeResponses(n, rec, m.GetResponses())
}

// ---------------------------------------------------------------- crash / restart

func (w *World) confChangeInRange(n *Node, lo, hi uint64) bool {
	dv := diskView(n.Disk)
	for i := lo + 1; i <= hi; i++ {
		e := dv.Entry(i)
		if e == nil {
			return true // unknown: be conservative
		}
		if e.GetType() != pb.EntryNormal {
			return true
		}
	}
	return false
}

func (w *World) crashRestart(n *Node, rec *StepRec, flags int) {
	rec.Crashed = true
	n.Pending, n.Stage = nil, 0
	n.AppendQ, n.ApplyQ, n.LocalQ, n.SnapObl = nil, nil, nil, nil
	n.ApplyPaused, n.AppendPaused, n.ReadyPaused = false, false, false
	n.Inc++
	if flags&CrashLoseUnsynced != 0 {
		n.Disk.SetHardState(cloneHS(n.SyncedHS))
	}
	hs, snap, _ := n.Disk.VerifDump()
	sidx := snap.GetMetadata().GetIndex()
	if hs != nil && hs.GetCommit() < sidx {
		// crash between persisting a snapshot and the hard state: the application
		// reconciles (a snapshot is committed state); see DESIGN.md §4.
		fixed := cloneHS(hs)
		fixed.Commit = new(sidx)
		n.Disk.SetHardState(fixed)
		hs = fixed
		rec.CommitRepaired = true
		w.Counters["commit_repaired_on_recovery"]++
	} else if hs == nil && sidx > 0 {
		n.Disk.SetHardState(&pb.HardState{Commit: new(sidx)})
		hs, _, _ = n.Disk.VerifDump()
		rec.CommitRepaired = true
		w.Counters["commit_repaired_on_recovery"]++
	}
	n.SyncedHS = cloneHS(hs) // whatever survived the crash is durable now
	// The state machine is either durable (it resumes from min(its applied index,
	// persisted commit)) or rebuilt from the snapshot. In both cases raft is told
	// the index the state machine is at: Config.Applied never lies below the
	// snapshot whose ConfState raft starts from.
	var applied uint64
	durable := min(n.App.Applied, hs.GetCommit())
	if flags&CrashAppliedZero != 0 || durable <= sidx || w.confChangeInRange(n, sidx, durable) {
		w.appRestoreSnapshot(n, pb.EnsureSnapshot(snap))
		applied = sidx
	} else {
		applied = durable
	}
	rec.Restarted = true
	rec.RestartApplied = applied
	w.start(n, applied)
}

// ---------------------------------------------------------------- events

func (w *World) payload(k, j, size int) []byte {
	b := []byte(fmt.Sprintf("p%d", k))
	if j > 0 {
		b = append(b, []byte(fmt.Sprintf(".%d", j))...)
	}
	for len(b) < size {
		b = append(b, 'x')
	}
	return b
}

func (w *World) confChange(spec ConfSpec) pb.ConfChangeI {
	ccs, err := pb.ConfChangesFromString(spec.Changes)
	if err != nil {
		panic(err)
	}
	if spec.V1 {
		if len(ccs) != 1 {
			panic("V1 conf change needs exactly one change")
		}
		return &pb.ConfChange{Type: ccs[0].Type, NodeId: ccs[0].NodeId}
	}
	return &pb.ConfChangeV2{Transition: spec.Transition.Enum(), Changes: ccs}
}

// Apply executes one event. It never panics on a library assertion: the panic is
// recorded in the StepRec and the world is marked dead.
func (w *World) Apply(ev Event) (rec *StepRec) {
	if ev.Kind == EvDeliverHeld || ev.Kind == EvDupHeld {
		// resolve to the delivery of the oldest held-back message from Node to Peer
		best := -1
		for i := range w.Net {
			if m := w.Net[i].M; w.Net[i].Delayed && m.GetFrom() == uint64(ev.Node) && m.GetTo() == uint64(ev.Peer) && (best < 0 || w.Net[i].Seq < w.Net[best].Seq) {
				best = i
			}
		}
		if best < 0 {
			rec = &StepRec{Ev: ev, Node: -1}
			w.Steps++
			w.runMonitors(rec)
			return rec
		}
		if ev.Kind == EvDupHeld {
			// a copy stays in the network, held back
			w.seq++
			cp := w.Net[best]
			cp.Seq = w.seq
			w.Net = append(w.Net[:best+1], append([]NetMsg{cp}, w.Net[best+1:]...)...)
		}
		for k, pos := range w.Distinct() {
			if w.Net[pos].Enc == w.Net[best].Enc {
				ev = Event{Kind: EvDeliver, Arg: uint16(k)}
				break
			}
		}
	}
	rec = &StepRec{Ev: ev, Node: -1}
	w.Steps++
	var n *Node
	if ev.Node > 0 && int(ev.Node) <= len(w.Nodes) && ev.Kind != EvHeal && ev.Kind != EvHoldFrom && ev.Kind != EvFlush {
		n = w.own(int(ev.Node - 1))
		rec.Node = int(ev.Node - 1)
	}
	switch ev.Kind {
	case EvDeliver, EvDrop, EvDup:
		d := w.Distinct()
		if int(ev.Arg) >= len(d) {
			panic(fmt.Sprintf("harness: %v out of range (%d distinct messages)", ev, len(d)))
		}
		pos := d[ev.Arg]
		nm := w.Net[pos]
		rec.msg = nm.M
		if ev.Kind != EvDup {
			w.removeNet(pos)
		}
		if ev.Kind == EvDrop {
			w.Budget[BDrop]--
			w.runMonitors(rec)
			return rec
		}
		if ev.Kind == EvDup {
			w.Budget[BDup]--
		}
		n = w.own(int(nm.M.GetTo() - 1))
		rec.Node = int(n.ID - 1)
		m := &pb.Message{}
		if err := proto.Unmarshal([]byte(nm.Enc), m); err != nil {
			panic(err)
		}
		rec.Delivered = m
	}
	if n != nil {
		rec.Pre = n.vs()
		rec.PreLog = w.Log(rec.Node)
		rec.PreDiskHS = cloneHS(w.DiskHS(rec.Node))
	}
	func() {
		defer func() {
			if r := recover(); r != nil {
				rec.Panic = r
				w.Dead = true
				w.LastPanic = r
			}
		}()
		w.exec(ev, n, rec)
	}()
	if n != nil && !w.Dead {
		w.touch(n)
	}
	if w.Sc.TrackOut {
		w.trackOut(rec, n)
	}
	w.runMonitors(rec)
	return rec
}

// trackOut folds everything the node exposed during this event into the running
// output hash (C19): the exact bytes of the Ready (messages in order, entries,
// hard/soft state, read states, MustSync, snapshot), API results, and the dump of
// the touched node afterwards.
func (w *World) trackOut(rec *StepRec, n *Node) {
	h := sha256.New()
	var b [8]byte
	binary.LittleEndian.PutUint64(b[:], w.Out)
	h.Write(b[:])
	fmt.Fprintf(h, "%v|%v|%v|%v|", rec.Ev, rec.OpErr, rec.StepErr, rec.Panic)
	if rd := rec.Ready; rd != nil {
		for _, m := range rd.Messages {
			h.Write(enc(m))
			h.Write([]byte{0xff})
		}
		for _, e := range rd.Entries {
			h.Write(enc(e))
		}
		h.Write([]byte{0xfe})
		for _, e := range rd.CommittedEntries {
			h.Write(enc(e))
		}
		if rd.HardState != nil {
			h.Write(enc(rd.HardState))
		}
		if rd.SoftState != nil {
			fmt.Fprintf(h, "ss%d/%d", rd.SoftState.Lead, rd.SoftState.RaftState)
		}
		if rd.Snapshot != nil {
			h.Write(enc(rd.Snapshot))
		}
		for _, rs := range rd.ReadStates {
			fmt.Fprintf(h, "rs%d/%s", rs.Index, rs.RequestCtx)
		}
		fmt.Fprintf(h, "ms%v", rd.MustSync)
	}
	for _, m := range rec.Released {
		h.Write(enc(m))
	}
	for _, m := range rec.LocalStep {
		h.Write(enc(m))
	}
	if n != nil && !w.Dead {
		if n.fp == nil {
			n.fp = w.nodeFingerprint(n)
		}
		h.Write(n.fp)
	}
	w.Out = binary.LittleEndian.Uint64(h.Sum(nil))
}

func (w *World) exec(ev Event, n *Node, rec *StepRec) {
	switch ev.Kind {
	case EvDeliver, EvDup:
		if n.Stopped {
			return
		}
		rec.StepErr = n.RN.Step(rec.Delivered)
	case EvReady:
		w.doReady(n, rec, -1)
	case EvReadyApply:
		w.doReadyApply(n, rec, n.Pending)
		n.Stage = 2
	case EvAdvance:
		rd := n.Pending
		n.Pending, n.Stage = nil, 0
		n.RN.Advance(*rd)
	case EvAppend:
		w.doAppend(n, rec, -1)
	case EvApply:
		w.doApply(n, rec)
	case EvLocal:
		m := n.LocalQ[0]
		n.LocalQ = n.LocalQ[1:]
		w.stepLocal(n, rec, m)
	case EvTick:
		w.Budget[BTick]--
		n.RN.Tick()
	case EvCampaign:
		w.Budget[BCampaign]--
		rec.OpErr = n.RN.Campaign()
	case EvPropose:
		w.Budget[BPropose]--
		k := w.PropSeq
		w.PropSeq++
		size := 0
		if k < len(w.Sc.PropSizes) {
			size = w.Sc.PropSizes[k]
		}
		cnt := int(ev.Arg)
		if cnt <= 1 {
			p := w.payload(k, 0, size)
			rec.PropPayloads = [][]byte{p}
			// NB: the buffer is not touched after the call. Reusing it would be outside the contract:
			// on the unchanged tree a follower that forwards the proposal keeps a reference to the
			// caller's slice until the message is serialised.
			rec.OpErr = n.RN.Propose(append([]byte(nil), p...))
		} else {
			var ents []*pb.Entry
			for j := 0; j < cnt; j++ {
				p := w.payload(k, j+1, size)
				rec.PropPayloads = append(rec.PropPayloads, p)
				ents = append(ents, &pb.Entry{Data: append([]byte(nil), p...)})
			}
			rec.OpErr = n.RN.Step(&pb.Message{Type: pb.MsgProp.Enum(), From: new(n.ID), Entries: ents})
		}
	case EvProposeConf:
		w.Budget[BProposeConf]--
		confLast := ev.Arg&0x100 != 0 // in a mixed batch the configuration change comes last
		cc := w.confChange(w.Sc.ConfMenu[ev.Arg&0xff])
		typ, data, err := pb.MarshalConfChange(cc)
		if err != nil {
			panic(err)
		}
		rec.PropType = typ
		rec.PropPayloads = [][]byte{data}
		if ev.Peer == 0 {
			rec.OpErr = n.RN.ProposeConfChange(cc)
		} else {
			// one MsgProp: the configuration change followed by normal entries
			ents := []*pb.Entry{{Type: typ.Enum(), Data: data}}
			k := w.PropSeq
			w.PropSeq++
			for j := 0; j < int(ev.Peer); j++ {
				p := w.payload(k, j+1, 0)
				rec.MixedPayloads = append(rec.MixedPayloads, p)
				ents = append(ents, &pb.Entry{Data: p})
			}
			if confLast {
				ents = append(ents[1:], ents[0])
				rec.ConfLast = true
			}
			rec.OpErr = n.RN.Step(&pb.Message{Type: pb.MsgProp.Enum(), From: new(n.ID), Entries: ents})
		}
	case EvReadIndex:
		w.Budget[BRead]--
		ctx := []byte(fmt.Sprintf("r%d", w.ReadSeq))
		w.ReadSeq++
		rec.ReadCtx = ctx
		n.RN.ReadIndex(ctx)
	case EvTransfer:
		w.Budget[BTransfer]--
		n.RN.TransferLeader(uint64(ev.Peer))
	case EvForgetLeader:
		w.Budget[BForget]--
		rec.OpErr = n.RN.ForgetLeader()
	case EvUnreachable:
		w.Budget[BUnreach]--
		n.RN.ReportUnreachable(uint64(ev.Peer))
	case EvSendSnap:
		// the application of a leader ships the snapshot its storage holds on its own initiative
		if w.Budget[BSendSnap] > 0 {
			w.Budget[BSendSnap]--
		}
		if vs := n.vs(); vs.State == raft.StateLeader {
			if snap, err := n.Disk.Snapshot(); err == nil && snap.GetMetadata().GetIndex() > 0 {
				rec.ManualSnap = true
				w.release(rec, &pb.Message{Type: pb.MsgSnap.Enum(), From: new(n.ID), To: new(uint64(ev.Peer)), Term: new(vs.Term), Snapshot: proto.Clone(snap).(*pb.Snapshot)})
			}
		}
	case EvReportSnap:
		for i, p := range n.SnapObl {
			if p == uint64(ev.Peer) {
				n.SnapObl = append(n.SnapObl[:i:i], n.SnapObl[i+1:]...)
				break
			}
		}
		st := raft.SnapshotFinish
		if ev.Arg == 1 {
			st = raft.SnapshotFailure
			w.Budget[BSnapFail]--
		}
		n.RN.ReportSnapshot(uint64(ev.Peer), st)
	case EvCompact:
		w.Budget[BCompact]--
		w.doCompact(n, rec, int(ev.Arg))
	case EvCrash:
		w.Budget[BCrash]--
		w.crashRestart(n, rec, int(ev.Arg))
	case EvReadyCrash:
		w.Budget[BCrash]--
		rec.CrashStage = int(ev.Arg >> 4)
		w.doReady(n, rec, rec.CrashStage)
		w.crashRestart(n, rec, int(ev.Arg&15))
	case EvAppendCrash:
		w.Budget[BCrash]--
		rec.CrashStage = int(ev.Arg >> 4)
		w.doAppend(n, rec, rec.CrashStage)
		w.crashRestart(n, rec, int(ev.Arg&15))
	case EvIsolate:
		for j := 1; j <= w.Sc.N; j++ {
			if j != int(ev.Node) {
				w.Blocked[ev.Node][j], w.Blocked[j][ev.Node] = true, true
			}
		}
	case EvCut:
		w.Blocked[ev.Node][ev.Peer], w.Blocked[ev.Peer][ev.Node] = true, true
	case EvHeal:
		for i := range w.Blocked {
			for j := range w.Blocked[i] {
				w.Blocked[i][j] = false
			}
		}
		for i := range w.HoldFrom {
			w.HoldFrom[i] = 0
		}
	case EvHoldFrom:
		if ev.Peer > 0 {
			w.HoldFrom[ev.Node] = ev.Peer
		} else {
			w.HoldFrom[ev.Node] = 0xff
		}
	case EvFlush:
		for k := range w.Net {
			w.Net[k].Delayed = false
		}
	case EvStop:
		n.Stopped = true
	case EvPauseApply:
		n.ApplyPaused = ev.Arg == 1
		if ev.Arg == 1 {
			w.Budget[BPause]--
		}
	case EvPauseReady:
		n.ReadyPaused = ev.Arg == 1
	case EvPauseAppend:
		n.AppendPaused = ev.Arg == 1
		if ev.Arg == 1 {
			w.Budget[BPause]--
		}
	case EvDelay:
		w.Budget[BDelay]--
		for k := range w.Net {
			if w.Net[k].M.GetTo() == n.ID {
				w.Net[k].Delayed = true
			}
		}
	default:
		panic(fmt.Sprintf("harness: unknown event %v", ev))
	}
}

func (w *World) doCompact(n *Node, rec *StepRec, keep int) {
	// never compact beyond what raft knows to be applied (after a restart with
	// Applied unset raft re-delivers entries the state machine already holds)
	idx := min(n.App.Applied, n.vs().Applied)
	dv := diskView(n.Disk)
	if idx > dv.Last() || idx <= dv.BaseIndex {
		return
	}
	if idx != n.App.Applied {
		return // the state machine cannot snapshot a state it is not in
	}
	if _, err := n.Disk.CreateSnapshot(idx, n.App.CS, snapData(n.App.Chain)); err != nil {
		return
	}
	cidx := idx
	if uint64(keep) < cidx {
		cidx -= uint64(keep)
	}
	if cidx > dv.BaseIndex {
		_ = n.Disk.Compact(cidx)
	}
}

func (w *World) runMonitors(rec *StepRec) {
	for _, m := range w.Mons {
		if v := m.OnEvent(w, rec); v != nil {
			rec.Violations = append(rec.Violations, v...)
		}
	}
}

// ---------------------------------------------------------------- clone

// Clone returns an independent copy of the world (real objects are copied through
// the VerifClone hooks; see the validation in the explorers).
func (w *World) Clone() *World {
	c := &World{Sc: w.Sc, Budget: w.Budget, seq: w.seq, PropSeq: w.PropSeq, ReadSeq: w.ReadSeq, PC: w.PC,
		Dead: w.Dead, Steps: w.Steps, Out: w.Out, Counters: map[string]int{}}
	for k, v := range w.Counters {
		c.Counters[k] = v
	}
	c.Net = append([]NetMsg(nil), w.Net...)
	c.HoldFrom = append([]uint8(nil), w.HoldFrom...)
	c.Blocked = make([][]bool, len(w.Blocked))
	for i := range w.Blocked {
		c.Blocked[i] = append([]bool(nil), w.Blocked[i]...)
	}
	// Nodes are shared copy-on-write: an event writes to exactly one node, which
	// World.own copies first if another world still references it.
	c.Nodes = make([]*Node, len(w.Nodes))
	for i, n := range w.Nodes {
		n.shared = true
		c.Nodes[i] = n
	}
	for _, m := range w.Mons {
		c.Mons = append(c.Mons, m.Clone())
	}
	return c
}

// own returns node i for writing, copying it first if it is shared with another world.
func (w *World) own(i int) *Node {
	n := w.Nodes[i]
	if !n.shared {
		return n
	}
	d := n.Disk.VerifClone()
	nn := &Node{ID: n.ID, Inc: n.Inc, Cfg: n.Cfg, Disk: d, RN: n.RN.VerifClone(d), SyncedHS: n.SyncedHS, App: n.App,
		Pending: n.Pending, Stage: n.Stage, Stopped: n.Stopped, ApplyPaused: n.ApplyPaused, AppendPaused: n.AppendPaused, ReadyPaused: n.ReadyPaused,
		AppendQ: append([]*pb.Message(nil), n.AppendQ...), ApplyQ: append([]*pb.Message(nil), n.ApplyQ...),
		LocalQ: append([]*pb.Message(nil), n.LocalQ...), SnapObl: append([]uint64(nil), n.SnapObl...)}
	nn.fp = n.fp
	nn.vsCache, nn.vsValid, nn.logCache = n.vsCache, n.vsValid, n.logCache
	w.Nodes[i] = nn
	return nn
}
