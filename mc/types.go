package mc

import (
	"fmt"

	pb "go.etcd.io/raft/v3/raftpb"
)

// EventKind enumerates the environment's alphabet.
type EventKind uint8

const (
	EvNone EventKind = iota
	// application / disk steps
	EvReady      // sync: whole Ready cycle (eager) or Ready+persist+send (split); async: Ready + routing
	EvReadyApply // sync split: apply committed entries / snapshot of the pending Ready (ApplyConfChange)
	EvAdvance    // sync split: Advance
	EvAppend     // async: append thread handles the head of its queue
	EvApply      // async: apply thread handles the head of its queue
	EvLocal      // async lazy-local: deliver the oldest self-addressed storage response
	// network
	EvDeliver // Arg = index into the sorted list of distinct in-flight messages
	EvDrop
	EvDup
	// local operations
	EvTick
	EvCampaign
	EvPropose      // Arg = number of entries in the MsgProp (1 or 2)
	EvProposeConf  // Arg = menu index; Peer = number of normal entries following the change in the same MsgProp
	EvReadIndex
	EvTransfer       // Peer = transferee
	EvForgetLeader
	EvUnreachable    // Peer
	EvReportSnap     // Peer, Arg: 0 = finish, 1 = failure
	EvCompact        // Arg: entries kept behind the snapshot (0 or 1)
	// crashes (always followed by an immediate restart from disk)
	EvCrash       // Arg = crash flags
	EvReadyCrash  // sync: Ready, persist up to stage (Arg>>4), crash; Arg&15 = crash flags
	EvAppendCrash // async: append thread persists up to stage (Arg>>4), crash
	// script-only operations
	EvIsolate // block all traffic from/to Node
	EvHeal    // unblock everything
	EvCut     // block Node<->Peer
	EvStop    // stop a node for good (removed members)
	EvDelay   // freeze every message currently in flight to Node until the script has ended (a long delay)
	EvPauseApply // script-only: Arg 1 pauses, 0 resumes the node's apply thread (async storage writes)
	EvPauseAppend // script-only: Arg 1 pauses, 0 resumes the node's append thread (async storage writes)
	EvPauseReady  // script-only: Arg 1 = the application stops calling Ready on Node (steps still arrive), 0 = resumes
	EvHoldFrom    // script-only: messages released by Node from now on are held back (delayed) until EvFlush / end of script
	EvFlush       // script-only: every held-back message becomes deliverable (holds stay in force for later messages)
	EvDeliverHeld // script-only: deliver the oldest held-back (delayed) message from Node to Peer – exact message scheduling inside a script
	EvDupHeld     // script-only: like EvDeliverHeld, but a copy of the message stays held back (a duplicate that arrives much later)
	EvSendSnap    // script-only: the application at leader Node ships the snapshot its storage holds to Peer on its own initiative (a snapshot "ahead or behind" of what raft asked for, cf. testdata/snapshot_succeed_via_app_resp_behind.txt)
	numEventKinds
)

var evNames = [...]string{"none", "Ready", "ReadyApply", "Advance", "Append", "Apply", "Local", "Deliver", "Drop", "Dup",
	"Tick", "Campaign", "Propose", "ProposeConf", "ReadIndex", "Transfer", "ForgetLeader", "Unreachable", "ReportSnap",
	"Compact", "Crash", "ReadyCrash", "AppendCrash", "Isolate", "Heal", "Cut", "Stop", "Delay", "PauseApply", "PauseAppend", "PauseReady", "HoldFrom", "Flush", "DeliverHeld", "DupHeld", "SendSnapshot"}

func (k EventKind) String() string { return evNames[k] }

// Crash flags.
const (
	CrashLoseUnsynced = 1 // hard-state writes that the contract did not require to be synced are lost
	CrashAppliedZero  = 2 // restart with Config.Applied unset (state machine rebuilt from the snapshot)
)

// Persistence stages for ReadyCrash / AppendCrash.
const (
	StageNone     = 0 // nothing persisted (Ready taken, then crash)
	StageSnap     = 1 // snapshot persisted
	StageEntries  = 2 // + entries
	StageHard     = 3 // + hard state; nothing sent
	StageSent     = 4 // + messages sent; nothing applied, no Advance
	numCrashStage = 5
)

// Event is one environment choice. Node/Peer are 1-based ids.
type Event struct {
	Kind EventKind
	Node uint8
	Peer uint8
	Arg  uint16
}

func (e Event) String() string {
	if int(e.Kind) >= len(evNames) {
		return "<next scripted operation>"
	}
	switch e.Kind {
	case EvDeliver, EvDrop, EvDup:
		return fmt.Sprintf("%s(#%d)", e.Kind, e.Arg)
	case EvTransfer, EvUnreachable, EvCut, EvSendSnap, EvDeliverHeld, EvDupHeld:
		return fmt.Sprintf("%s(%d,%d)", e.Kind, e.Node, e.Peer)
	case EvReportSnap:
		return fmt.Sprintf("%s(%d,%d,fail=%d)", e.Kind, e.Node, e.Peer, e.Arg)
	case EvCrash:
		return fmt.Sprintf("%s(%d,flags=%d)", e.Kind, e.Node, e.Arg)
	case EvReadyCrash, EvAppendCrash:
		return fmt.Sprintf("%s(%d,stage=%d,flags=%d)", e.Kind, e.Node, e.Arg>>4, e.Arg&15)
	case EvProposeConf:
		if e.Peer > 0 {
			return fmt.Sprintf("%s(%d,menu %d,+%d normal entries,conf last=%v)", e.Kind, e.Node, e.Arg&0xff, e.Peer, e.Arg&0x100 != 0)
		}
		return fmt.Sprintf("%s(%d,%d)", e.Kind, e.Node, e.Arg)
	case EvPropose, EvCompact:
		return fmt.Sprintf("%s(%d,%d)", e.Kind, e.Node, e.Arg)
	case EvHeal:
		return "Heal"
	case EvFlush:
		return "Flush"
	}
	return fmt.Sprintf("%s(%d)", e.Kind, e.Node)
}

// Budget classes.
type BudgetKind uint8

const (
	BTick BudgetKind = iota
	BCampaign
	BPropose
	BProposeConf
	BRead
	BTransfer
	BForget
	BUnreach
	BCompact
	BDrop
	BDup
	BCrash
	BSnapFail
	BDelay
	BPause
	BSendSnap
	NumBudgets
)

var budgetNames = [...]string{"tick", "campaign", "propose", "proposeconf", "read", "transfer", "forget", "unreach", "compact", "drop", "dup", "crash", "snapfail", "delay", "pause", "sendsnap"}

// NodeCfg is the per-node raft configuration the scenario chooses.
type NodeCfg struct {
	PreVote, CheckQuorum, Async, StepDownOnRemoval bool
	DisableForwarding, DisableCCValidation         bool
	LeaseRead                                      bool
	MaxSizePerMsg                                  uint64 // as raft.Config (0 = one entry per message)
	MaxCommittedSize                               uint64
	MaxUncommitted                                 uint64
	MaxInflight                                    int
	MaxInflightBytes                               uint64
	ElectionTick, HeartbeatTick                    int
	Timeout                                        int // pinned randomized election timeout
}

// DefaultNodeCfg is a permissive configuration: no ticks needed, no limits.
func DefaultNodeCfg() NodeCfg {
	return NodeCfg{MaxSizePerMsg: 1 << 20, MaxInflight: 8, ElectionTick: 3, HeartbeatTick: 1, Timeout: 3}
}

// ConfSpec is one entry of a scenario's configuration-change menu.
type ConfSpec struct {
	V1         bool
	Transition pb.ConfChangeTransition
	Changes    string // raftpb.ConfChangesFromString syntax, e.g. "v4 r1"; empty = leave joint
}

// Scenario fixes the system under exploration: cluster, features, alphabet and bounds.
type Scenario struct {
	Name     string
	N        int       // node slots, ids 1..N
	Cfg      []NodeCfg // len N (or 1: same for all)
	Voters   []uint64  // initial voters
	Learners []uint64  // initial learners

	Budget [NumBudgets]int

	// Who may do what (nil = every node).
	CampaignNodes, ProposeNodes, ReadNodes, TickNodes, CrashNodes, CompactNodes []uint8
	TransferPairs, UnreachPairs                                                [][2]uint8
	ConfMenu                                                                   []ConfSpec
	ConfNodes                                                                  []uint8
	PropSizes                                                                  []int // payload size of the k-th proposal (default 1..)
	PropBatch                                                                  []int // entries in the k-th proposal (default 1)

	SplitReady bool // sync: Ready / Apply / Advance are separate events
	LazyReady  bool // no priority for pending Ready work: messages may batch up before a Ready
	LazyLocal  bool // async: self-addressed storage responses are queued, not stepped at once
	CrashStages []int // stages offered by ReadyCrash/AppendCrash (nil = all)
	CrashFlags  []int // crash flag combinations offered (nil = all that apply)
	MaxTerm     uint64 // Campaign/Tick events are disabled at nodes whose term is >= MaxTerm (0 = no cap)

	Prefix []Event // executed with the default scheduler before exploration starts (root state)
	Script []Event // D-DFS: scripted operations
	DevBound int   // D-DFS: maximal number of deviations
	// Deviation menu for D-DFS is Enabled() under Budget.
	TrackOut bool // maintain the running output hash (C19)
	NoClone  bool // D-DFS: successors are rebuilt by replay from scratch instead of clones, which keeps real memory aliasing between a node and the slices it handed out
	SlowSnap bool // snapshots travel slowly: every MsgSnap is delayed until the script has ended (D-DFS)
	MaxDepth int // BFS depth cap (0 = none)
	MaxStates int // state cap (0 = none)
}

func (s *Scenario) cfg(i int) NodeCfg {
	if len(s.Cfg) == 1 {
		return s.Cfg[0]
	}
	return s.Cfg[i]
}

func allowed(list []uint8, id uint8) bool {
	if list == nil {
		return true
	}
	for _, x := range list {
		if x == id {
			return true
		}
	}
	return false
}
