package mc

import (
	"fmt"
	"strings"

	"go.etcd.io/raft/v3"
	pb "go.etcd.io/raft/v3/raftpb"
)

// kf1Tracker recognises the history signature of known finding KF-1
// ("async-unsynced-candidacy"): a node released MsgVote(T) while its stable
// storage still held a term < T, crashed before T became durable, and in a later
// incarnation became leader of the same term T.
type kf1Tracker struct {
	pending map[nodeTerm]int  // (node, T) -> incarnation that released MsgVote(T) with disk term < T
	lost    map[nodeTerm]bool // ... and crashed before T was durable
	Tainted bool
}

func newKF1Tracker() *kf1Tracker {
	return &kf1Tracker{pending: map[nodeTerm]int{}, lost: map[nodeTerm]bool{}}
}

func (k *kf1Tracker) Prop() string            { return "KF-1" }
func (k *kf1Tracker) Init(w *World)           {}
func (k *kf1Tracker) History(b []byte) []byte { return b }
func (k *kf1Tracker) Clone() Monitor          { panic("harness: tracker is replay-only") }
func (k *kf1Tracker) OnEvent(w *World, rec *StepRec) []*Violation {
	if rec.Node < 0 || w.Dead {
		return nil
	}
	n := w.Nodes[rec.Node]
	if !n.Cfg.Async {
		return nil
	}
	if rec.Crashed {
		hs := w.DiskHS(rec.Node)
		for key, inc := range k.pending {
			if key.id == n.ID && inc < n.Inc && hs.GetTerm() < key.term {
				k.lost[key] = true
			}
		}
	}
	hs := w.DiskHS(rec.Node)
	for _, m := range append(append([]*pb.Message(nil), rec.Released...), rec.Blocked...) {
		if m.GetType() == pb.MsgVote && m.GetFrom() == n.ID && hs.GetTerm() < m.GetTerm() {
			key := nodeTerm{n.ID, m.GetTerm()}
			if _, ok := k.pending[key]; !ok {
				k.pending[key] = n.Inc
			}
		}
	}
	if n.vs().State == raft.StateLeader && k.lost[nodeTerm{n.ID, n.vs().Term}] {
		k.Tainted = true
	}
	return nil
}

// ClassifyKnown re-executes a violating path with the finding trackers attached and
// returns the id of the known finding whose signature the history satisfies ("" if none).
func ClassifyKnown(sc *Scenario, mf MonitorFactory, path []Event, choices bool, prop string) string {
	if prop == "C17/checkquorum-stepdown-after-transfer" {
		// KF-3: the monitor itself establishes the signature (a transfer request acted on after the last
		// contact with a quorum, and the leader still within two election timeouts of that request)
		return "KF-3"
	}
	if prop == "C14" {
		return classifyKF2(sc, mf, path, choices)
	}
	async := false
	for i := 0; i < sc.N; i++ {
		if sc.cfg(i).Async {
			async = true
		}
	}
	if !async || sc.Budget[BCrash] == 0 {
		return ""
	}
	switch prop {
	case "C01", "C02", "C03", "C04", "C05", "C06":
	default:
		return ""
	}
	tr := newKF1Tracker()
	mf2 := func() []Monitor { return append(mf(), tr) }
	if choices {
		replayChoices(sc, mf2, path)
	} else {
		Replay(sc, mf2, path)
	}
	if tr.Tainted {
		return "KF-1"
	}
	return ""
}

func attributeKnown(known []KnownFinding, f *Found, j *Job) string {
	if f.Known == "" {
		return ""
	}
	for _, k := range known {
		if k.ID == f.Known && k.Status == "known" {
			for _, p := range k.Properties {
				if p == f.V.Prop || p == j.Prop {
					return k.ID
				}
			}
		}
	}
	return ""
}

// classifyKF2 recognises known finding KF-2: a node that crashed between
// persisting its first entries and its first hard state restarts at term 0 with a
// non-empty log and panics ("term should be set when sending MsgPreVoteResp")
// when it has to reject a pre-vote request.
func classifyKF2(sc *Scenario, mf MonitorFactory, path []Event, choices bool) string {
	if len(path) == 0 {
		return ""
	}
	var w *World
	if choices {
		w, _ = replayChoices(sc, mf, path[:len(path)-1])
	} else {
		w, _ = Replay(sc, mf, path[:len(path)-1])
	}
	last := path[len(path)-1]
	var rec *StepRec
	if choices {
		rec = w.applyChoice(last)
	} else {
		rec = w.Apply(last)
	}
	if rec.Panic == nil || rec.Node < 0 || rec.Pre == nil {
		return ""
	}
	msg := fmt.Sprint(rec.Panic)
	n := w.Nodes[rec.Node]
	if strings.Contains(msg, "term should be set when sending MsgPreVoteResp") && rec.Pre.Term == 0 && n.Inc > 0 &&
		rec.Delivered != nil && rec.Delivered.GetType() == pb.MsgPreVote && rec.PreLog != nil && rec.PreLog.LastTerm() > 0 {
		return "KF-2"
	}
	return ""
}
