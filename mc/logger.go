package mc

import (
	"fmt"

	"go.etcd.io/raft/v3"
)

// nopLogger drops all output without formatting it. Panic/Panicf/Fatal panic
// with a RaftPanic so that the harness can tell the library's assertions from
// its own.
type nopLogger struct{}

// RaftPanic is the value a library assertion panics with.
type RaftPanic struct{ Msg string }

func (p RaftPanic) String() string { return p.Msg }

func (nopLogger) Debug(v ...any)                   {}
func (nopLogger) Debugf(format string, v ...any)   {}
func (nopLogger) Error(v ...any)                   {}
func (nopLogger) Errorf(format string, v ...any)   {}
func (nopLogger) Info(v ...any)                    {}
func (nopLogger) Infof(format string, v ...any)    {}
func (nopLogger) Warning(v ...any)                 {}
func (nopLogger) Warningf(format string, v ...any) {}
func (nopLogger) Fatal(v ...any)                   { panic(RaftPanic{"FATAL: " + fmt.Sprint(v...)}) }
func (nopLogger) Fatalf(format string, v ...any) {
	panic(RaftPanic{"FATAL: " + fmt.Sprintf(format, v...)})
}
func (nopLogger) Panic(v ...any) { panic(RaftPanic{fmt.Sprint(v...)}) }
func (nopLogger) Panicf(format string, v ...any) {
	panic(RaftPanic{fmt.Sprintf(format, v...)})
}

var theLogger raft.Logger = nopLogger{}

func init() { raft.SetLogger(theLogger) }
