package mc

import (
	"encoding/binary"
	"fmt"
	"math"
	"sort"

	"go.etcd.io/raft/v3"
	pb "go.etcd.io/raft/v3/raftpb"
	"go.etcd.io/raft/v3/tracker"
	"verif/refmodel"
)

// newMsgs returns the messages the step appended to raft's outbox.
func newMsgs(rec *StepRec, post *raft.VerifState) []*pb.Message {
	if rec.Ready != nil || rec.Restarted || rec.Pre == nil {
		return post.Msgs
	}
	if len(post.Msgs) >= len(rec.Pre.Msgs) {
		return post.Msgs[len(rec.Pre.Msgs):]
	}
	return post.Msgs
}

func progressOf(vs *raft.VerifState, id uint64) *raft.VerifProgress {
	for k := range vs.Progress {
		if vs.Progress[k].ID == id {
			return &vs.Progress[k]
		}
	}
	return nil
}

type flowKey struct {
	leader, follower uint64
}

type inflightMsg struct {
	last  uint64
	bytes uint64
}

// MonC16 checks message size limits, the in-flight window (by shadow accounting
// that does not look at the library's Inflights), silence towards followers that
// need a snapshot, and the uncommitted-size quota for proposals.
type MonC16 struct {
	window map[flowKey][]inflightMsg
	term   map[uint64]uint64 // leader -> term of the window bookkeeping
	clean  map[uint64]bool   // leader -> all earlier-term entries were applied before its first accepted proposal
	first  map[uint64]bool   // leader -> has accepted a proposal in this term
	// snap: the monitor's own account of "a snapshot is pending for this follower": set when
	// the leader hands a MsgSnap to the network, cleared when the leader is told the outcome
	// (ReportSnapshot) or the follower acknowledges an index the leader's log still reaches.
	snap   map[flowKey]uint64
	shared bool
}

func NewMonC16() *MonC16 { return &MonC16{} }
func (m *MonC16) Prop() string { return "C16" }
func (m *MonC16) Init(w *World) {
	m.window, m.term, m.clean, m.first = map[flowKey][]inflightMsg{}, map[uint64]uint64{}, map[uint64]bool{}, map[uint64]bool{}
	m.snap = map[flowKey]uint64{}
}
func (m *MonC16) Clone() Monitor {
	m.shared = true
	c := *m
	return &c
}
func (m *MonC16) own() {
	if !m.shared {
		return
	}
	wn, t, c, f := make(map[flowKey][]inflightMsg, len(m.window)), make(map[uint64]uint64, len(m.term)), make(map[uint64]bool, len(m.clean)), make(map[uint64]bool, len(m.first))
	for k, v := range m.window {
		wn[k] = append([]inflightMsg(nil), v...)
	}
	for k, v := range m.term {
		t[k] = v
	}
	for k, v := range m.clean {
		c[k] = v
	}
	for k, v := range m.first {
		f[k] = v
	}
	sn := make(map[flowKey]uint64, len(m.snap))
	for k, v := range m.snap {
		sn[k] = v
	}
	m.window, m.term, m.clean, m.first, m.snap, m.shared = wn, t, c, f, sn, false
}
func (m *MonC16) History(b []byte) []byte {
	var ks []flowKey
	for k := range m.window {
		ks = append(ks, k)
	}
	sort.Slice(ks, func(a, c int) bool {
		if ks[a].leader != ks[c].leader {
			return ks[a].leader < ks[c].leader
		}
		return ks[a].follower < ks[c].follower
	})
	for _, k := range ks {
		b = binary.AppendUvarint(b, k.leader)
		b = binary.AppendUvarint(b, k.follower)
		for _, x := range m.window[k] {
			b = binary.AppendUvarint(b, x.last)
			b = binary.AppendUvarint(b, x.bytes)
		}
		b = append(b, 0xff)
	}
	var sk []flowKey
	for k := range m.snap {
		sk = append(sk, k)
	}
	sort.Slice(sk, func(a, c int) bool {
		if sk[a].leader != sk[c].leader {
			return sk[a].leader < sk[c].leader
		}
		return sk[a].follower < sk[c].follower
	})
	for _, k := range sk {
		b = binary.AppendUvarint(b, k.leader)
		b = binary.AppendUvarint(b, k.follower)
		b = binary.AppendUvarint(b, m.snap[k])
	}
	b = append(b, 0xfe)
	for id := uint64(1); id <= 8; id++ {
		b = binary.AppendUvarint(b, m.term[id])
		if m.clean[id] {
			b = append(b, 1)
		}
		if m.first[id] {
			b = append(b, 2)
		}
	}
	return b
}

func (m *MonC16) OnEvent(w *World, rec *StepRec) []*Violation {
	if rec.Node < 0 || w.Dead {
		return nil
	}
	var out []*Violation
	i := rec.Node
	n := w.Nodes[i]
	pre, post := rec.Pre, n.vs()
	msgs := newMsgs(rec, post)
	// size limit of every append
	for _, msg := range msgs {
		if msg.GetType() == pb.MsgApp && len(msg.GetEntries()) > 1 {
			if sz := raft.VerifEntsSize(msg.GetEntries()); sz > n.Cfg.MaxSizePerMsg {
				out = append(out, &Violation{"C16", "max-size-per-msg", fmt.Sprintf("node %d produced MsgApp to %d with %d entries of %d bytes > MaxSizePerMsg %d", n.ID, msg.GetTo(), len(msg.GetEntries()), sz, n.Cfg.MaxSizePerMsg)})
			}
		}
	}
	if post.State != raft.StateLeader {
		if _, ok := m.term[n.ID]; ok {
			m.own()
			delete(m.term, n.ID)
			delete(m.clean, n.ID)
			delete(m.first, n.ID)
			for k := range m.window {
				if k.leader == n.ID {
					delete(m.window, k)
				}
			}
			for k := range m.snap {
				if k.leader == n.ID {
					delete(m.snap, k)
				}
			}
		}
		return out
	}
	// leader bookkeeping is per term
	if m.term[n.ID] != post.Term || rec.Restarted {
		m.own()
		m.term[n.ID] = post.Term
		m.clean[n.ID], m.first[n.ID] = false, false
		for k := range m.window {
			if k.leader == n.ID {
				delete(m.window, k)
			}
		}
		for k := range m.snap {
			if k.leader == n.ID {
				delete(m.snap, k)
			}
		}
	}
	// the leader learns the outcome of a snapshot transfer
	for k := range m.snap {
		if k.leader != n.ID {
			continue
		}
		done := progressOf(post, k.follower) == nil
		if rec.Ev.Kind == EvReportSnap && uint64(rec.Ev.Peer) == k.follower {
			done = true
		}
		if d := rec.Delivered; d != nil && d.GetType() == pb.MsgAppResp && d.GetFrom() == k.follower && !d.GetReject() && d.GetTerm() == post.Term {
			if fi, err := n.Disk.FirstIndex(); err == nil && d.GetIndex()+1 >= fi {
				done = true
			}
		}
		if done {
			m.own()
			delete(m.snap, k)
		}
	}
	// ---- in-flight window, per follower
	for _, pp := range post.Progress {
		f := pp.ID
		if f == n.ID {
			continue
		}
		key := flowKey{n.ID, f}
		var prePP *raft.VerifProgress
		if pre.State == raft.StateLeader && pre.Term == post.Term {
			prePP = progressOf(pre, f)
		}
		var sent []inflightMsg
		sawSnap := false
		for _, msg := range msgs {
			if msg.GetTo() != f {
				continue
			}
			if msg.GetType() == pb.MsgSnap && !rec.ManualSnap {
				sawSnap = true
				m.own()
				m.snap[key] = msg.GetSnapshot().GetMetadata().GetIndex()
			}
			if msg.GetType() == pb.MsgApp {
				if idx, pending := m.snap[key]; pending && !sawSnap {
					out = append(out, &Violation{"C16", "no-append-while-snapshot-pending", fmt.Sprintf("leader %d produced MsgApp(prev %d, %d entries) to %d while the snapshot at %d it sent is outstanding (no ReportSnapshot, no acknowledgement from %d)", n.ID, msg.GetIndex(), len(msg.GetEntries()), f, idx, f)})
				}
				if sawSnap {
					out = append(out, &Violation{"C16", "no-append-while-snapshot-pending", fmt.Sprintf("leader %d produced MsgApp to %d after a MsgSnap to it in the same step", n.ID, f)})
				}
				if prePP != nil && prePP.State == tracker.StateSnapshot && pp.State == tracker.StateSnapshot {
					out = append(out, &Violation{"C16", "no-append-while-snapshot-pending", fmt.Sprintf("leader %d produced MsgApp to %d although a snapshot is pending for it", n.ID, f)})
				}
				if ne := len(msg.GetEntries()); ne > 0 {
					sent = append(sent, inflightMsg{last: msg.GetEntries()[ne-1].GetIndex(), bytes: raft.VerifPayloadsSize(msg.GetEntries())})
				}
			}
		}
		if pp.State != tracker.StateReplicate {
			if len(m.window[key]) > 0 {
				m.own()
				delete(m.window, key)
			}
			continue
		}
		m.own()
		win := m.window[key]
		if prePP == nil || prePP.State != tracker.StateReplicate {
			win = nil // (re-)entered streaming in this step
		}
		if d := rec.Delivered; d != nil && d.GetType() == pb.MsgAppResp && d.GetFrom() == f && !d.GetReject() && d.GetTerm() == post.Term {
			k := 0
			for k < len(win) && win[k].last <= d.GetIndex() {
				k++
			}
			win = win[k:]
		}
		win = append(append([]inflightMsg(nil), win...), sent...)
		m.window[key] = win
		if len(win) > n.Cfg.MaxInflight {
			out = append(out, &Violation{"C16", "max-inflight-msgs", fmt.Sprintf("leader %d has %d entry-bearing appends outstanding to %d, MaxInflightMsgs is %d", n.ID, len(win), f, n.Cfg.MaxInflight)})
		}
		if mb := n.Cfg.MaxInflightBytes; mb != 0 && len(win) > 1 {
			var sum uint64
			for _, x := range win[:len(win)-1] {
				sum += x.bytes
			}
			if sum >= mb {
				out = append(out, &Violation{"C16", "max-inflight-bytes", fmt.Sprintf("leader %d sent another append to %d with %d bytes already outstanding, MaxInflightBytes is %d", n.ID, f, sum, mb)})
			}
		}
	}
	// ---- uncommitted-size quota
	if (rec.Ev.Kind == EvPropose) && pre.State == raft.StateLeader && pre.Term == post.Term && rec.PreLog != nil {
		mx := n.Cfg.MaxUncommitted
		if mx == 0 {
			mx = math.MaxUint64
		}
		// entries of earlier terms all applied when this term's first proposal arrives => the
		// library's estimate is exact from then on (it only under-estimates otherwise)
		if !m.first[n.ID] {
			m.own()
			clean := true
			for idx := pre.Applied + 1; idx <= rec.PreLog.Last(); idx++ {
				if e := rec.PreLog.Entry(idx); e != nil && e.GetTerm() < pre.Term && len(e.GetData()) > 0 {
					clean = false
				}
			}
			m.clean[n.ID] = clean
		}
		var unc uint64
		for idx := pre.Applied + 1; idx <= rec.PreLog.Last(); idx++ {
			if e := rec.PreLog.Entry(idx); e != nil && e.GetTerm() == pre.Term {
				unc += uint64(len(e.GetData()))
			}
		}
		accepted := rec.OpErr == nil
		if accepted && !m.first[n.ID] {
			m.first[n.ID] = true
		}
		if m.clean[n.ID] && accepted && unc > mx {
			out = append(out, &Violation{"C16", "max-uncommitted-size", fmt.Sprintf("leader %d accepted a proposal with %d bytes of its own proposals still unapplied; MaxUncommittedEntriesSize is %d", n.ID, unc, mx)})
		}
	}
	return out
}

// ---------------------------------------------------------------- C17

// MonC17 checks PreVote and CheckQuorum behaviour with harness-side tick counts.
type MonC17 struct {
	delivered  map[candKey]map[uint64]bool // granting MsgPreVoteResp delivered to a pre-candidate (key term = campaign term)
	sinceLead  []int                        // per node: own ticks since it last processed a message from its current leader
	ticks      []int                        // per node: own ticks
	lastHeard  []map[uint64]int             // per leader: tick stamp of the last message processed from each peer
	leaderFrom []int                        // tick stamp at which the node became leader of its current term (-1: not leader)
	xferAt     []int                        // per leader: tick stamp of the last leadership-transfer request it acted on (-1: none); see known finding KF-3
	shared     bool
}

func NewMonC17() *MonC17 { return &MonC17{} }
func (m *MonC17) Prop() string { return "C17" }
func (m *MonC17) Init(w *World) {
	nn := len(w.Nodes)
	m.delivered = map[candKey]map[uint64]bool{}
	m.sinceLead, m.ticks, m.leaderFrom, m.xferAt = make([]int, nn), make([]int, nn), make([]int, nn), make([]int, nn)
	m.lastHeard = make([]map[uint64]int, nn)
	for i := range m.lastHeard {
		m.lastHeard[i] = map[uint64]int{}
		m.leaderFrom[i] = -1
		m.xferAt[i] = -1
		m.sinceLead[i] = 1 << 20
	}
}
func (m *MonC17) Clone() Monitor {
	m.shared = true
	c := *m
	return &c
}
func (m *MonC17) own() {
	if !m.shared {
		return
	}
	d := make(map[candKey]map[uint64]bool, len(m.delivered))
	for k, v := range m.delivered {
		mm := make(map[uint64]bool, len(v))
		for a := range v {
			mm[a] = true
		}
		d[k] = mm
	}
	lh := make([]map[uint64]int, len(m.lastHeard))
	for i, v := range m.lastHeard {
		lh[i] = make(map[uint64]int, len(v))
		for a, b := range v {
			lh[i][a] = b
		}
	}
	m.delivered, m.lastHeard = d, lh
	m.sinceLead, m.ticks, m.leaderFrom = append([]int(nil), m.sinceLead...), append([]int(nil), m.ticks...), append([]int(nil), m.leaderFrom...)
	m.xferAt = append([]int(nil), m.xferAt...)
	m.shared = false
}
func (m *MonC17) History(b []byte) []byte {
	var ds []candKey
	for k := range m.delivered {
		ds = append(ds, k)
	}
	sort.Slice(ds, func(a, c int) bool {
		if ds[a].term != ds[c].term {
			return ds[a].term < ds[c].term
		}
		if ds[a].id != ds[c].id {
			return ds[a].id < ds[c].id
		}
		return ds[a].inc < ds[c].inc
	})
	for _, k := range ds {
		b = binary.AppendUvarint(b, k.id)
		b = binary.AppendUvarint(b, uint64(k.inc))
		b = binary.AppendUvarint(b, k.term)
		for _, v := range keys(m.delivered[k]) {
			b = binary.AppendUvarint(b, v)
		}
		b = append(b, 0xfe)
	}
	for i := range m.ticks {
		// only differences matter
		b = binary.AppendVarint(b, int64(min(m.sinceLead[i], 1000)))
		b = binary.AppendVarint(b, int64(m.leaderFrom[i]-m.ticks[i]))
		if m.xferAt[i] >= 0 {
			b = binary.AppendVarint(b, int64(m.xferAt[i]-m.ticks[i]))
		} else {
			b = append(b, 0xfc)
		}
		var ps []uint64
		for p := range m.lastHeard[i] {
			ps = append(ps, p)
		}
		sort.Slice(ps, func(a, c int) bool { return ps[a] < ps[c] })
		for _, p := range ps {
			b = binary.AppendUvarint(b, p)
			b = binary.AppendVarint(b, int64(m.lastHeard[i][p]-m.ticks[i]))
		}
		b = append(b, 0xfd)
	}
	return b
}

func (m *MonC17) OnEvent(w *World, rec *StepRec) []*Violation {
	if rec.Node < 0 || w.Dead {
		return nil
	}
	var out []*Violation
	i := rec.Node
	n := w.Nodes[i]
	pre, post := rec.Pre, n.vs()
	m.own()
	if rec.Restarted {
		m.sinceLead[i] = 1 << 20
		m.leaderFrom[i] = -1
		m.xferAt[i] = -1
		m.lastHeard[i] = map[uint64]int{}
		return nil
	}
	d := rec.Delivered
	// (b) a pre-vote request never changes term or vote
	if d != nil && d.GetType() == pb.MsgPreVote {
		if post.Term != pre.Term || post.Vote != pre.Vote {
			out = append(out, &Violation{"C17", "prevote-changes-nothing", fmt.Sprintf("node %d went from (t%d, vote %d) to (t%d, vote %d) on a MsgPreVote from %d", n.ID, pre.Term, pre.Vote, post.Term, post.Vote, d.GetFrom())})
		}
	}
	// (c) a follower in its leader's lease ignores non-forced vote requests
	if d != nil && (d.GetType() == pb.MsgVote || d.GetType() == pb.MsgPreVote) && n.Cfg.CheckQuorum {
		forced := string(d.GetContext()) == "CampaignTransfer"
		repeat := d.GetTerm() == pre.Term && pre.Vote == d.GetFrom()
		if !forced && !repeat && pre.Lead != 0 && pre.State == raft.StateFollower && m.sinceLead[i] < n.Cfg.ElectionTick {
			granted := false
			for _, r := range post.MsgsAfterAppend {
				if (r.GetType() == pb.MsgVoteResp || r.GetType() == pb.MsgPreVoteResp) && !r.GetReject() && r.GetTo() == d.GetFrom() {
					granted = true
				}
			}
			for _, r := range pre.MsgsAfterAppend {
				if (r.GetType() == pb.MsgVoteResp || r.GetType() == pb.MsgPreVoteResp) && !r.GetReject() && r.GetTo() == d.GetFrom() {
					granted = false
				}
			}
			if post.Term != pre.Term || post.Vote != pre.Vote || granted {
				out = append(out, &Violation{"C17", "in-lease-votes-ignored", fmt.Sprintf("node %d heard from its leader %d only %d ticks ago (election timeout %d) but reacted to %s from %d: term %d->%d vote %d->%d granted=%v",
					n.ID, pre.Lead, m.sinceLead[i], n.Cfg.ElectionTick, d.GetType(), d.GetFrom(), pre.Term, post.Term, pre.Vote, post.Vote, granted)})
			}
		}
	}
	// granting pre-vote responses delivered to a pre-candidate
	if d != nil && d.GetType() == pb.MsgPreVoteResp && !d.GetReject() {
		k := candKey{n.ID, n.Inc, d.GetTerm()}
		if m.delivered[k] == nil {
			m.delivered[k] = map[uint64]bool{}
		}
		m.delivered[k][d.GetFrom()] = true
	}
	// (a) with PreVote a node raises its term to campaign only after a pre-vote majority (or when told to take over)
	if n.Cfg.PreVote && post.State == raft.StateCandidate && !(pre.State == raft.StateCandidate && pre.Term == post.Term) {
		told := d != nil && d.GetType() == pb.MsgTimeoutNow
		if !told {
			got := m.delivered[candKey{n.ID, n.Inc, post.Term}]
			yes := func(id uint64) bool { return id == n.ID || got[id] }
			if pre.State != raft.StatePreCandidate || !refmodel.JointMajority(pre.Voters, yes) {
				out = append(out, &Violation{"C17", "prevote-majority-before-campaign", fmt.Sprintf("node %d (PreVote) became candidate of term %d from %s with pre-vote grants %v (+self); voters %v", n.ID, post.Term, pre.State, keys(got), pre.Voters)})
			}
		}
	}
	// tick bookkeeping
	if rec.Ev.Kind == EvTick {
		m.ticks[i]++
		if m.sinceLead[i] < 1<<20 {
			m.sinceLead[i]++
		}
	}
	if d != nil && (d.GetType() == pb.MsgApp || d.GetType() == pb.MsgHeartbeat || d.GetType() == pb.MsgSnap) && post.Lead == d.GetFrom() && d.GetTerm() == post.Term && post.State == raft.StateFollower {
		m.sinceLead[i] = 0
	}
	if post.Lead != pre.Lead && !(d != nil && post.Lead == d.GetFrom()) {
		m.sinceLead[i] = 1 << 20
	}
	// (d) a CheckQuorum leader steps down within two election timeouts of last hearing from a quorum
	if post.State == raft.StateLeader {
		if m.leaderFrom[i] < 0 || pre.State != raft.StateLeader || pre.Term != post.Term {
			m.leaderFrom[i] = m.ticks[i]
			m.xferAt[i] = -1
			m.lastHeard[i] = map[uint64]int{}
		}
		if post.LeadTransferee != 0 && post.LeadTransferee != pre.LeadTransferee {
			// the leader acted on a transfer request: raft.go resets electionElapsed there
			m.xferAt[i] = m.ticks[i]
		}
		if d != nil && d.GetTerm() == post.Term && d.GetFrom() != n.ID && (d.GetType() == pb.MsgAppResp || d.GetType() == pb.MsgHeartbeatResp) {
			m.lastHeard[i][d.GetFrom()] = m.ticks[i]
		}
		if n.Cfg.CheckQuorum && rec.Ev.Kind == EvTick {
			now := m.ticks[i]
			// the latest instant t such that a joint majority was heard from at or after t
			best := -1
			cands := []int{m.leaderFrom[i]}
			for _, t := range m.lastHeard[i] {
				cands = append(cands, t)
			}
			for _, t := range cands {
				yes := func(id uint64) bool {
					if id == n.ID {
						return true
					}
					h, ok := m.lastHeard[i][id]
					if !ok {
						h = m.leaderFrom[i] // elected by a quorum at that instant
					}
					return h >= t
				}
				if refmodel.JointMajority(post.Voters, yes) && t > best {
					best = t
				}
			}
			if best >= 0 && now-best >= 2*n.Cfg.ElectionTick && m.xferAt[i] > best && now-m.xferAt[i] < 2*n.Cfg.ElectionTick {
				// signature of known finding KF-3: every transfer request the leader acts on restarts the
				// CheckQuorum period; counted from the last such request the leader is still within bounds
				out = append(out, &Violation{"C17", "checkquorum-stepdown-after-transfer", fmt.Sprintf("leader %d (term %d) is still leader %d of its own ticks after it last heard from a quorum (election timeout %d); it acted on a leadership-transfer request %d ticks ago, which reset its CheckQuorum timer", n.ID, post.Term, now-best, n.Cfg.ElectionTick, now-m.xferAt[i])})
			} else if best >= 0 && now-best >= 2*n.Cfg.ElectionTick {
				out = append(out, &Violation{"C17", "checkquorum-stepdown", fmt.Sprintf("leader %d (term %d) is still leader %d of its own ticks after it last heard from a quorum (election timeout %d)", n.ID, post.Term, now-best, n.Cfg.ElectionTick)})
			}
		}
	} else {
		m.leaderFrom[i] = -1
		m.xferAt[i] = -1
	}
	return out
}
