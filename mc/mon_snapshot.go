package mc

import (
	"strings"
	"encoding/binary"
	"fmt"
	"sort"

	"go.etcd.io/raft/v3"
	pb "go.etcd.io/raft/v3/raftpb"
	"verif/refmodel"
)

// confFold is a reference fold of committed configuration changes.
type confFold struct {
	at  []uint64         // indexes of committed conf changes, ascending
	cfg []*refmodel.Conf // configuration after each of them
	ini *refmodel.Conf
}

func newConfFold(sc *Scenario) *confFold {
	return &confFold{ini: refmodel.NewConf(sc.Voters, sc.Learners)}
}

func (f *confFold) clone() *confFold {
	return &confFold{at: append([]uint64(nil), f.at...), cfg: append([]*refmodel.Conf(nil), f.cfg...), ini: f.ini}
}

// upTo returns the reference configuration after all folded changes <= idx.
func (f *confFold) upTo(idx uint64) *refmodel.Conf {
	c := f.ini
	for k, a := range f.at {
		if a <= idx {
			c = f.cfg[k]
		}
	}
	return c
}

func (f *confFold) has(idx uint64) bool {
	for _, a := range f.at {
		if a == idx {
			return true
		}
	}
	return false
}

func toChanges(ccs []*pb.ConfChangeSingle) []refmodel.Change {
	var out []refmodel.Change
	for _, c := range ccs {
		k := refmodel.Update
		switch c.GetType() {
		case pb.ConfChangeAddNode:
			k = refmodel.AddVoter
		case pb.ConfChangeAddLearnerNode:
			k = refmodel.AddLearner
		case pb.ConfChangeRemoveNode:
			k = refmodel.Remove
		}
		out = append(out, refmodel.Change{Kind: k, ID: c.GetNodeId()})
	}
	return out
}

// fold adds the conf-change entry e (committed, at an index above everything folded so far).
// It returns an error string if the reference model rejects the change.
func (f *confFold) fold(e *pb.Entry) string {
	idx := e.GetIndex()
	if f.has(idx) {
		return ""
	}
	if len(f.at) > 0 && f.at[len(f.at)-1] > idx {
		return fmt.Sprintf("conf change at %d folded after %d", idx, f.at[len(f.at)-1])
	}
	prev := f.upTo(idx)
	var v2 *pb.ConfChangeV2
	switch e.GetType() {
	case pb.EntryConfChange:
		c := &pb.ConfChange{}
		if err := protoUnmarshal(e.GetData(), c); err != nil {
			return err.Error()
		}
		v2 = c.AsV2()
	case pb.EntryConfChangeV2:
		c := &pb.ConfChangeV2{}
		if err := protoUnmarshal(e.GetData(), c); err != nil {
			return err.Error()
		}
		v2 = c
	default:
		return ""
	}
	n, err := prev.ApplyV2(int(v2.GetTransition()), toChanges(v2.GetChanges()))
	if err != nil {
		// an invalid change is cancelled by every application (applied with node id 0): the
		// configuration stays what it was. Removing the last voter is the one kind of
		// invalid change raft's propose-time checks cannot exclude; anything else is reported.
		f.at = append(f.at, idx)
		f.cfg = append(f.cfg, prev)
		if strings.Contains(err.Error(), "removed all voters") {
			return ""
		}
		return fmt.Sprintf("reference model rejects the committed change at %d: %v", idx, err)
	}
	f.at = append(f.at, idx)
	f.cfg = append(f.cfg, n)
	return ""
}

func (f *confFold) history(b []byte) []byte {
	for k, a := range f.at {
		b = binary.AppendUvarint(b, a)
		b = append(b, f.cfg[k].String()...)
	}
	return b
}

func confOfState(vs *raft.VerifState) *refmodel.Conf {
	c := refmodel.NewConf(vs.Voters[0], vs.Learners)
	for _, id := range vs.Voters[1] {
		c.Outgoing[id] = true
	}
	for _, id := range vs.LearnersNext {
		c.LearnersNext[id] = true
	}
	c.AutoLeave = vs.AutoLeave
	return c
}

func confOfCS(cs *pb.ConfState) *refmodel.Conf {
	c := refmodel.NewConf(cs.GetVoters(), cs.GetLearners())
	for _, id := range cs.GetVotersOutgoing() {
		c.Outgoing[id] = true
	}
	for _, id := range cs.GetLearnersNext() {
		c.LearnersNext[id] = true
	}
	c.AutoLeave = cs.GetAutoLeave()
	return c
}

// committedLog records the entry at every index once any node's commit index covers it.
type committedLog struct {
	ents   map[uint64]*pb.Entry
	chain  map[uint64]uint64
	maxIdx uint64
}

func newCommittedLog() *committedLog {
	return &committedLog{ents: map[uint64]*pb.Entry{}, chain: map[uint64]uint64{InitIndex: 0}, maxIdx: InitIndex}
}

func (c *committedLog) clone() *committedLog {
	n := &committedLog{ents: make(map[uint64]*pb.Entry, len(c.ents)), chain: make(map[uint64]uint64, len(c.chain)), maxIdx: c.maxIdx}
	for k, v := range c.ents {
		n.ents[k] = v
	}
	for k, v := range c.chain {
		n.chain[k] = v
	}
	return n
}

// observe extends the record from node i's log up to its commit index and returns the new entries.
func (c *committedLog) observe(w *World, i int) []*pb.Entry {
	vs := w.Nodes[i].vs()
	if vs.Committed <= c.maxIdx {
		return nil
	}
	var added []*pb.Entry
	log := w.Log(i)
	for idx := c.maxIdx + 1; idx <= vs.Committed; idx++ {
		e := log.Entry(idx)
		if e == nil {
			continue
		}
		c.ents[idx] = e
		if ch, ok := c.chain[idx-1]; ok {
			c.chain[idx] = chainStep(ch, e)
		}
		added = append(added, e)
	}
	c.maxIdx = vs.Committed
	return added
}

func (c *committedLog) history(b []byte) []byte {
	idx := make([]uint64, 0, len(c.ents))
	for i := range c.ents {
		idx = append(idx, i)
	}
	sort.Slice(idx, func(a, d int) bool { return idx[a] < idx[d] })
	for _, i := range idx {
		e := c.ents[i]
		b = binary.AppendUvarint(b, i)
		b = binary.AppendUvarint(b, e.GetTerm())
		b = binary.AppendUvarint(b, uint64(e.GetType()))
		b = binary.AppendUvarint(b, uint64(len(e.GetData())))
		b = append(b, e.GetData()...)
	}
	return binary.AppendUvarint(b, c.maxIdx)
}

// MonC09 checks snapshot installation at the receiver and the content of every
// snapshot a leader sends.
type MonC09 struct {
	cl       *committedLog
	fold     *confFold
	accepted []uint64 // per node: index of the newest snapshot it accepted in this incarnation
	handed   []uint64 // per node: index of the newest snapshot handed to the application for installation in this incarnation
	shared   bool
}

func NewMonC09() *MonC09 { return &MonC09{} }
func (m *MonC09) Prop() string { return "C09" }
func (m *MonC09) Init(w *World) {
	m.cl = newCommittedLog()
	m.fold = newConfFold(w.Sc)
	m.accepted = make([]uint64, len(w.Nodes))
	m.handed = make([]uint64, len(w.Nodes))
}
func (m *MonC09) Clone() Monitor {
	m.shared = true
	c := *m
	return &c
}
func (m *MonC09) own() {
	if m.shared {
		m.cl, m.fold, m.accepted, m.handed, m.shared = m.cl.clone(), m.fold.clone(), append([]uint64(nil), m.accepted...), append([]uint64(nil), m.handed...), false
	}
}
func (m *MonC09) History(b []byte) []byte {
	b = m.cl.history(b)
	b = m.fold.history(b)
	for _, a := range m.accepted {
		b = binary.AppendUvarint(b, a)
	}
	for _, a := range m.handed {
		b = binary.AppendUvarint(b, a)
	}
	return b
}

func sameLog(a, b *LogView) bool {
	if a.BaseIndex != b.BaseIndex || a.BaseTerm != b.BaseTerm || len(a.Ents) != len(b.Ents) {
		return false
	}
	for k := range a.Ents {
		if !entEqual(a.Ents[k], b.Ents[k]) {
			return false
		}
	}
	return true
}

func (m *MonC09) OnEvent(w *World, rec *StepRec) []*Violation {
	if rec.Node < 0 || w.Dead {
		return nil
	}
	var out []*Violation
	i := rec.Node
	n := w.Nodes[i]
	pre, post := rec.Pre, n.vs()
	// keep the committed record and the reference configuration fold up to date
	if post.Committed > m.cl.maxIdx {
		m.own()
		for _, e := range m.cl.observe(w, i) {
			if e.GetType() != pb.EntryNormal {
				m.fold.fold(e)
			}
		}
	}
	if d := rec.Delivered; d != nil && d.GetType() == pb.MsgSnap && !rec.Crashed {
		s := pb.EnsureSnapshot(d.GetSnapshot())
		sidx, sterm := s.GetMetadata().GetIndex(), s.GetMetadata().GetTerm()
		log := w.Log(i)
		if post.Committed < pre.Committed {
			out = append(out, &Violation{"C09", "commit-never-decreases", fmt.Sprintf("node %d: commit went from %d to %d on MsgSnap(%d,t%d)", n.ID, pre.Committed, post.Committed, sidx, sterm)})
		}
		stale := d.GetTerm() < pre.Term
		matches := false
		if t, ok := rec.PreLog.Term(sidx); ok && t == sterm {
			matches = true
		}
		cs := pb.EnsureConfState(s.GetMetadata().GetConfState())
		inCfg := contains(cs.GetVoters(), n.ID) || contains(cs.GetLearners(), n.ID) || contains(cs.GetVotersOutgoing(), n.ID)
		newSnap := post.UnstableSnapshot != nil && (pre.UnstableSnapshot == nil || pre.UnstableSnapshot.GetMetadata().GetIndex() != post.UnstableSnapshot.GetMetadata().GetIndex())
		switch {
		case stale || sidx <= pre.Committed || matches || !inCfg:
			if newSnap {
				out = append(out, &Violation{"C09", "no-install-when-obsolete", fmt.Sprintf("node %d (commit %d, matches=%v, stale=%v, member=%v) installed snapshot (%d,t%d)", n.ID, pre.Committed, matches, stale, inCfg, sidx, sterm)})
			} else {
				if !sameLog(rec.PreLog, log) {
					out = append(out, &Violation{"C09", "no-install-when-obsolete", fmt.Sprintf("node %d: log changed although snapshot (%d,t%d) must not be installed", n.ID, sidx, sterm)})
				}
				if !stale && post.Committed > max(pre.Committed, sidx) {
					out = append(out, &Violation{"C09", "fast-forward-at-most-to-snapshot", fmt.Sprintf("node %d: commit %d -> %d on obsolete snapshot %d", n.ID, pre.Committed, post.Committed, sidx)})
				}
			}
		default:
			if !newSnap || post.UnstableSnapshot.GetMetadata().GetIndex() != sidx {
				out = append(out, &Violation{"C09", "install-exact", fmt.Sprintf("node %d did not install snapshot (%d,t%d) although it is ahead of commit %d and does not match its log", n.ID, sidx, sterm, pre.Committed)})
				break
			}
			if log.BaseIndex != sidx || log.BaseTerm != sterm || log.Last() != sidx || post.Committed != sidx {
				out = append(out, &Violation{"C09", "install-exact", fmt.Sprintf("node %d after installing (%d,t%d): base (%d,t%d) last %d commit %d", n.ID, sidx, sterm, log.BaseIndex, log.BaseTerm, log.Last(), post.Committed)})
			}
			if got, want := confOfState(post), confOfCS(cs); !got.Equal(want) {
				out = append(out, &Violation{"C09", "install-membership", fmt.Sprintf("node %d after installing snapshot %d uses config %s, snapshot says %s", n.ID, sidx, got, want)})
			}
		}
	}
	// installing a snapshot replaces the stored log: nothing older than the snapshot survives behind it
	if dv := diskView(n.Disk); len(dv.Ents) > 0 && !rec.Restarted {
		prevT := dv.BaseTerm
		for _, e := range dv.Ents {
			if e.GetTerm() < prevT {
				out = append(out, &Violation{"C09", "snapshot-is-the-new-log-base", fmt.Sprintf("node %d stores %s behind its log base (%d,t%d): entries of an older term survived the installation of the snapshot", n.ID, entStr(e), dv.BaseIndex, dv.BaseTerm)})
				break
			}
			prevT = e.GetTerm()
		}
	}
	// a snapshot is handed to the application for installation once, and only above the commit
	// index the node had before it accepted it (i.e. above every snapshot handed out before)
	if rd := rec.Ready; rd != nil && !raft.IsEmptySnap(rd.Snapshot) && !rec.Restarted {
		sidx := rd.Snapshot.GetMetadata().GetIndex()
		if sidx <= m.handed[i] {
			out = append(out, &Violation{"C09", "installed-once-above-commit", fmt.Sprintf("node %d was handed snapshot %d for installation after snapshot %d had been handed to it (a snapshot at or below the commit index is not installed)", n.ID, sidx, m.handed[i])})
		}
		m.own()
		m.handed[i] = max(m.handed[i], sidx)
	}
	// an accepted snapshot stays the node's log base (until an even newer one replaces it)
	if rec.Restarted {
		m.own()
		m.handed[i] = 0
		m.accepted[i] = 0 // an unpersisted snapshot may be lost in a crash
	} else {
		if post.UnstableSnapshot != nil {
			if idx := post.UnstableSnapshot.GetMetadata().GetIndex(); idx > m.accepted[i] {
				m.own()
				m.accepted[i] = idx
			}
		}
		if a := m.accepted[i]; a > 0 {
			log := w.Log(i)
			if log.BaseIndex < a || post.Committed < a {
				out = append(out, &Violation{"C09", "accepted-snapshot-stays-base", fmt.Sprintf("node %d accepted a snapshot at %d but its log now starts after %d with commit %d (last index %d)", n.ID, a, log.BaseIndex, post.Committed, log.Last())})
			}
		}
	}
	// every snapshot a leader sends describes a prefix of the committed log
	for _, msg := range append(append([]*pb.Message(nil), rec.Released...), rec.Blocked...) {
		if msg.GetType() != pb.MsgSnap {
			continue
		}
		s := pb.EnsureSnapshot(msg.GetSnapshot())
		sidx, sterm := s.GetMetadata().GetIndex(), s.GetMetadata().GetTerm()
		if sidx > m.cl.maxIdx {
			out = append(out, &Violation{"C09", "sent-snapshot-committed", fmt.Sprintf("node %d sent snapshot at %d beyond anything committed (%d)", msg.GetFrom(), sidx, m.cl.maxIdx)})
			continue
		}
		if e, ok := m.cl.ents[sidx]; ok && e.GetTerm() != sterm {
			out = append(out, &Violation{"C09", "sent-snapshot-committed", fmt.Sprintf("node %d sent snapshot (%d,t%d) but the committed entry there is %s", msg.GetFrom(), sidx, sterm, entStr(e))})
		}
		if ch, ok := m.cl.chain[sidx]; ok && ch != snapChain(s.GetData()) {
			out = append(out, &Violation{"C09", "sent-snapshot-state", fmt.Sprintf("node %d sent snapshot at %d whose state is not the result of applying the committed prefix", msg.GetFrom(), sidx)})
		}
		if want, got := m.fold.upTo(sidx), confOfCS(pb.EnsureConfState(s.GetMetadata().GetConfState())); !got.Equal(want) {
			out = append(out, &Violation{"C09", "sent-snapshot-membership", fmt.Sprintf("node %d sent snapshot at %d with membership %s; folding the committed changes gives %s", msg.GetFrom(), sidx, got, want)})
		}
	}
	return out
}
