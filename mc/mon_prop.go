package mc

import (
	"bytes"
	"encoding/binary"
	"fmt"
	"sort"
	"strings"

	"go.etcd.io/raft/v3"
	pb "go.etcd.io/raft/v3/raftpb"
)

// MonC20 checks proposal integrity: nothing invented, nothing duplicated beyond
// the deliveries of a proposal to a leader, dropped means dropped, batches stay
// adjacent and in order, and raft adds only no-ops, neutralised conf changes and
// automatic leave-joint entries on its own.
type MonC20 struct {
	handed     map[string]int   // payload (type-prefixed) -> times handed to a leader that accepted it
	known      map[string]bool  // every payload ever proposed
	confByTerm map[uint64]int   // conf-change proposals accepted by the leader of a term (each may be neutralised)
	leaderOf   map[uint64]uint64
	shared     bool
}

func NewMonC20() *MonC20 { return &MonC20{} }
func (m *MonC20) Prop() string { return "C20" }
func (m *MonC20) Init(w *World) {
	m.handed, m.known, m.confByTerm, m.leaderOf = map[string]int{}, map[string]bool{}, map[uint64]int{}, map[uint64]uint64{}
}
func (m *MonC20) Clone() Monitor {
	m.shared = true
	c := *m
	return &c
}
func (m *MonC20) own() {
	if !m.shared {
		return
	}
	h, k, c, l := make(map[string]int, len(m.handed)+1), make(map[string]bool, len(m.known)+1), make(map[uint64]int, len(m.confByTerm)+1), make(map[uint64]uint64, len(m.leaderOf)+1)
	for a, b := range m.handed {
		h[a] = b
	}
	for a, b := range m.known {
		k[a] = b
	}
	for a, b := range m.confByTerm {
		c[a] = b
	}
	for a, b := range m.leaderOf {
		l[a] = b
	}
	m.handed, m.known, m.confByTerm, m.leaderOf, m.shared = h, k, c, l, false
}
func (m *MonC20) History(b []byte) []byte {
	var ks []string
	for k := range m.known {
		ks = append(ks, k)
	}
	sort.Strings(ks)
	for _, k := range ks {
		b = append(b, k...)
		b = binary.AppendUvarint(b, uint64(m.handed[k]))
	}
	var ts []uint64
	for t := range m.confByTerm {
		ts = append(ts, t)
	}
	sort.Slice(ts, func(a, c int) bool { return ts[a] < ts[c] })
	for _, t := range ts {
		b = binary.AppendUvarint(b, t)
		b = binary.AppendUvarint(b, uint64(m.confByTerm[t]))
	}
	return b
}

func pkey(t pb.EntryType, data []byte) string { return fmt.Sprintf("%d:%s", t, data) }

func (m *MonC20) OnEvent(w *World, rec *StepRec) []*Violation {
	if rec.Node < 0 || w.Dead {
		return nil
	}
	var out []*Violation
	i := rec.Node
	n := w.Nodes[i]
	pre, post := rec.Pre, n.vs()
	log := w.Log(i)
	acceptedHere := 0
	var acceptedPayloads []string
	confAccepted := 0
	// proposals issued locally
	if rec.Ev.Kind == EvPropose || rec.Ev.Kind == EvProposeConf {
		m.own()
		typ := pb.EntryNormal
		if rec.Ev.Kind == EvProposeConf {
			typ = rec.PropType
		}
		for _, p := range rec.PropPayloads {
			k := pkey(typ, p)
			m.known[k] = true
			if pre.State == raft.StateLeader && rec.OpErr == nil {
				m.handed[k]++
				acceptedPayloads = append(acceptedPayloads, k)
				if typ != pb.EntryNormal {
					confAccepted++
				}
			}
		}
		var mixed []string
		for _, p := range rec.MixedPayloads {
			k := pkey(pb.EntryNormal, p)
			m.known[k] = true
			if pre.State == raft.StateLeader && rec.OpErr == nil {
				m.handed[k]++
				mixed = append(mixed, k)
			}
		}
		if rec.ConfLast {
			acceptedPayloads = append(mixed, acceptedPayloads...)
		} else {
			acceptedPayloads = append(acceptedPayloads, mixed...)
		}
		if pre.State == raft.StateLeader && rec.OpErr == nil {
			acceptedHere = len(rec.PropPayloads) + len(rec.MixedPayloads)
		}
		if rec.OpErr != nil && log.Last() != rec.PreLog.Last() {
			out = append(out, &Violation{"C20", "dropped-means-dropped", fmt.Sprintf("node %d returned %v for a proposal but its log grew from %d to %d", n.ID, rec.OpErr, rec.PreLog.Last(), log.Last())})
		}
	}
	// forwarded proposals reaching a leader
	if d := rec.Delivered; d != nil && d.GetType() == pb.MsgProp && pre.State == raft.StateLeader && rec.StepErr == nil {
		m.own()
		d = rec.Orig() // the copy handed to Step may have been rewritten
		for _, e := range d.GetEntries() {
			k := pkey(e.GetType(), e.GetData())
			m.handed[k]++
			acceptedPayloads = append(acceptedPayloads, k)
			if e.GetType() != pb.EntryNormal {
				confAccepted++
			}
		}
		acceptedHere = len(d.GetEntries())
	}
	if d := rec.Delivered; d != nil && d.GetType() == pb.MsgProp && rec.StepErr != nil && log.Last() != rec.PreLog.Last() {
		out = append(out, &Violation{"C20", "dropped-means-dropped", fmt.Sprintf("node %d refused a forwarded proposal (%v) but its log grew", n.ID, rec.StepErr)})
	}
	if confAccepted > 0 {
		m.confByTerm[pre.Term] += confAccepted
	}
	// what a leader appends on accepting a proposal: exactly the proposal's entries, in order
	if acceptedHere > 0 && post.State == raft.StateLeader && pre.Term == post.Term {
		grew := int(log.Last() - rec.PreLog.Last())
		auto := 0 // an accepted proposal may be followed by nothing else in the same step
		if grew != acceptedHere+auto {
			out = append(out, &Violation{"C20", "exactly-once-at-leader", fmt.Sprintf("leader %d accepted a proposal of %d entries but its log grew by %d", n.ID, acceptedHere, grew)})
		} else {
			for k, want := range acceptedPayloads {
				e := log.Entry(rec.PreLog.Last() + 1 + uint64(k))
				if e == nil {
					continue
				}
				got := pkey(e.GetType(), e.GetData())
				neutral := e.GetType() == pb.EntryNormal && len(e.GetData()) == 0 && !strings.HasPrefix(want, "0:")
				if got != want && !neutral {
					out = append(out, &Violation{"C20", "bit-for-bit", fmt.Sprintf("leader %d appended %s for proposal %q", n.ID, entStr(e), want)})
				}
			}
		}
	}
	// scan what is new in this node's log
	if log.Last() != rec.PreLog.Last() || log.LastTerm() != rec.PreLog.LastTerm() || rec.Restarted {
		counts := map[string]int{}
		emptyByTerm := map[uint64]int{}
		for k, e := range log.Ents {
			switch {
			case e.GetType() == pb.EntryNormal && len(e.GetData()) == 0:
				emptyByTerm[e.GetTerm()]++
			case e.GetType() == pb.EntryConfChangeV2 && len(e.GetData()) == 0:
				// automatic leave-joint: checked when it is created (below)
			default:
				key := pkey(e.GetType(), e.GetData())
				counts[key]++
				if !m.known[key] {
					out = append(out, &Violation{"C20", "nothing-invented", fmt.Sprintf("node %d holds %s which nobody proposed", n.ID, entStr(e))})
				}
				// batches stay adjacent and ordered: "pK.2" directly follows "pK.1"
				if e.GetType() == pb.EntryNormal {
					if j := bytes.Index(e.GetData(), []byte(".2")); j > 0 && bytes.HasPrefix(e.GetData(), []byte("p")) {
						first := append(append([]byte(nil), e.GetData()[:j]...), ".1"...)
						ok := false
						if k > 0 {
							prev := log.Ents[k-1]
							ok = prev.GetType() == pb.EntryNormal && bytes.HasPrefix(prev.GetData(), first) && prev.GetTerm() == e.GetTerm()
						} else {
							ok = true // predecessor compacted away
						}
						if !ok {
							out = append(out, &Violation{"C20", "batch-order", fmt.Sprintf("node %d holds %s not directly after the first entry of its batch", n.ID, entStr(e))})
						}
					}
				}
			}
		}
		for key, c := range counts {
			if c > m.handed[key] {
				out = append(out, &Violation{"C20", "no-duplication", fmt.Sprintf("node %d holds payload %q %d times but it was handed to a leader %d times", n.ID, key, c, m.handed[key])})
			}
		}
		for t, c := range emptyByTerm {
			if c > 1+m.confByTerm[t] {
				out = append(out, &Violation{"C20", "only-noop-and-neutralised", fmt.Sprintf("node %d holds %d empty entries of term %d; one leadership no-op plus %d neutralisable conf proposals were possible", n.ID, c, t, m.confByTerm[t])})
			}
		}
	}
	// an automatic leave-joint entry is created only from a joint auto-leave configuration
	if post.State == raft.StateLeader && log.Last() > rec.PreLog.Last() {
		for idx := rec.PreLog.Last() + 1; idx <= log.Last(); idx++ {
			e := log.Entry(idx)
			if e != nil && e.GetType() == pb.EntryConfChangeV2 && len(e.GetData()) == 0 && e.GetTerm() == post.Term {
				if !(len(pre.Voters[1]) > 0 && pre.AutoLeave) && !(len(post.Voters[1]) > 0 && post.AutoLeave) {
					out = append(out, &Violation{"C20", "auto-leave-only-when-joint", fmt.Sprintf("leader %d created an automatic leave-joint entry at %d outside a joint auto-leave configuration", n.ID, idx)})
				}
			}
		}
	}
	return out
}
