package mc

import (
	"encoding/binary"
	"fmt"
	"sort"

	"go.etcd.io/raft/v3"
	pb "go.etcd.io/raft/v3/raftpb"
	"verif/refmodel"
)

type readReq struct {
	node uint64
	g    uint64 // highest commit index any node had reported when the request was issued
}

type pendingRead struct {
	leader uint64
	inc    int
	term   uint64
	count  int // arrivals of this context at the leader not yet answered
	acks   map[uint64]bool
}

// MonC11 checks ReadIndex (ReadOnlySafe) linearizability.
type MonC11 struct {
	maxReported uint64
	issued      map[string]readReq
	pending     map[string]*pendingRead // ctx -> acks heard by the leader after it received the request
	answered    map[string]bool
	shared      bool
}

func NewMonC11() *MonC11 { return &MonC11{} }
func (m *MonC11) Prop() string { return "C11" }
func (m *MonC11) Init(w *World) {
	m.issued = map[string]readReq{}
	m.pending = map[string]*pendingRead{}
	m.answered = map[string]bool{}
}
func (m *MonC11) Clone() Monitor {
	m.shared = true
	c := *m
	return &c
}
func (m *MonC11) own() {
	if !m.shared {
		return
	}
	is, pe, an := make(map[string]readReq, len(m.issued)+1), make(map[string]*pendingRead, len(m.pending)+1), make(map[string]bool, len(m.answered)+1)
	for k, v := range m.issued {
		is[k] = v
	}
	for k, v := range m.pending {
		p := *v
		p.acks = make(map[uint64]bool, len(v.acks)+1)
		for a := range v.acks {
			p.acks[a] = true
		}
		pe[k] = &p
	}
	for k, v := range m.answered {
		an[k] = v
	}
	m.issued, m.pending, m.answered, m.shared = is, pe, an, false
}
func (m *MonC11) History(b []byte) []byte {
	b = binary.AppendUvarint(b, m.maxReported)
	var ks []string
	for k := range m.issued {
		ks = append(ks, k)
	}
	sort.Strings(ks)
	for _, k := range ks {
		b = append(b, k...)
		b = binary.AppendUvarint(b, m.issued[k].node)
		b = binary.AppendUvarint(b, m.issued[k].g)
		if m.answered[k] {
			b = append(b, 1)
		}
		if p := m.pending[k]; p != nil {
			b = binary.AppendUvarint(b, p.leader)
			b = binary.AppendUvarint(b, uint64(p.inc))
			b = binary.AppendUvarint(b, p.term)
			b = binary.AppendUvarint(b, uint64(p.count))
			for _, a := range keys(p.acks) {
				b = binary.AppendUvarint(b, a)
			}
		}
		b = append(b, 0xff)
	}
	return b
}

func ctxOf(m *pb.Message) string {
	if len(m.GetEntries()) == 0 {
		return ""
	}
	return string(m.GetEntries()[0].GetData())
}

func (m *MonC11) OnEvent(w *World, rec *StepRec) []*Violation {
	var out []*Violation
	// commit indexes reported to applications
	for _, hs := range rec.HardStates {
		if hs.GetCommit() > m.maxReported {
			m.own()
			m.maxReported = hs.GetCommit()
		}
	}
	if rec.Node < 0 || w.Dead {
		return out
	}
	i := rec.Node
	n := w.Nodes[i]
	if n.Cfg.LeaseRead {
		return out
	}
	pre, post := rec.Pre, n.vs()
	if rec.Ev.Kind == EvReadIndex {
		m.own()
		m.issued[string(rec.ReadCtx)] = readReq{node: n.ID, g: m.maxReported}
	}
	// the request reaches a leader (locally or forwarded)
	reach := func(ctx string) {
		if ctx == "" || post.State != raft.StateLeader {
			return
		}
		m.own()
		if p := m.pending[ctx]; p != nil && p.leader == n.ID && p.inc == n.Inc && p.term == post.Term {
			p.count++ // duplicate arrival: keep the acks heard since the first one (a superset)
			return
		}
		m.pending[ctx] = &pendingRead{leader: n.ID, inc: n.Inc, term: post.Term, count: 1, acks: map[uint64]bool{}}
	}
	if rec.Ev.Kind == EvReadIndex && pre.State == raft.StateLeader {
		reach(string(rec.ReadCtx))
	}
	if d := rec.Delivered; d != nil {
		switch d.GetType() {
		case pb.MsgReadIndex:
			if pre.State == raft.StateLeader {
				reach(ctxOf(d))
			}
		case pb.MsgHeartbeatResp:
			if pre.State == raft.StateLeader && d.GetTerm() == pre.Term && len(d.GetContext()) > 0 {
				for ctx, p := range m.pending {
					if p.leader == n.ID && p.inc == n.Inc && p.term == pre.Term && !p.acks[d.GetFrom()] {
						m.own()
						m.pending[ctx].acks[d.GetFrom()] = true
					}
				}
			}
		}
	}
	// answers produced by this step: new local read states, new MsgReadIndexResp
	var produced []string
	prodIdx := map[string]uint64{}
	if len(post.ReadStates) > len(pre.ReadStates) && post.State == raft.StateLeader {
		for _, rs := range post.ReadStates[len(pre.ReadStates):] {
			produced = append(produced, string(rs.RequestCtx))
			prodIdx[string(rs.RequestCtx)] = rs.Index
		}
	}
	seen := map[*pb.Message]bool{}
	for _, x := range pre.Msgs {
		seen[x] = true
	}
	for _, x := range post.Msgs {
		if !seen[x] && x.GetType() == pb.MsgReadIndexResp {
			produced = append(produced, ctxOf(x))
			prodIdx[ctxOf(x)] = x.GetIndex()
		}
	}
	if len(produced) > 0 && rec.Ready == nil {
		log := w.Log(i)
		for _, ctx := range produced {
			if post.State != raft.StateLeader && pre.State != raft.StateLeader {
				out = append(out, &Violation{"C11", "answer-by-leader", fmt.Sprintf("node %d produced a read answer for %q while not leader", n.ID, ctx)})
				continue
			}
			if t, ok := log.Term(post.Committed); !ok || t != post.Term {
				out = append(out, &Violation{"C11", "leader-committed-in-own-term", fmt.Sprintf("leader %d (term %d) answered read %q with index %d before committing an entry of its own term (commit %d has term %d)", n.ID, post.Term, ctx, prodIdx[ctx], post.Committed, t)})
			}
			sole := len(post.Voters[0]) == 1 && len(post.Voters[1]) == 0 && post.Voters[0][0] == n.ID
			if !sole {
				p := m.pending[ctx]
				yes := func(id uint64) bool { return id == n.ID || (p != nil && p.leader == n.ID && p.inc == n.Inc && p.acks[id]) }
				if !refmodel.JointMajority(post.Voters, yes) {
					var have []uint64
					if p != nil {
						have = keys(p.acks)
					}
					out = append(out, &Violation{"C11", "quorum-heard-after-request", fmt.Sprintf("leader %d answered read %q after hearing heartbeat responses only from %v since it received the request; voters %v", n.ID, ctx, have, post.Voters)})
				}
				if p != nil && p.leader == n.ID && p.inc == n.Inc {
					m.own()
					if p = m.pending[ctx]; p.count > 1 {
						p.count--
					} else {
						delete(m.pending, ctx)
					}
				}
			}
		}
	}
	// read states reported to the application
	for _, rs := range rec.ReadStates {
		ctx := string(rs.RequestCtx)
		rq, ok := m.issued[ctx]
		if !ok {
			out = append(out, &Violation{"C11", "own-context", fmt.Sprintf("node %d reported a read state with context %q that was never issued", n.ID, ctx)})
			continue
		}
		if rq.node != n.ID {
			out = append(out, &Violation{"C11", "own-context", fmt.Sprintf("node %d reported a read state for %q which was issued at node %d", n.ID, ctx, rq.node)})
		}
		if rs.Index < rq.g {
			out = append(out, &Violation{"C11", "read-index-not-stale", fmt.Sprintf("node %d: read %q got index %d, but commit index %d had been reported when it was issued", n.ID, ctx, rs.Index, rq.g)})
		}
		if !m.answered[ctx] {
			m.own()
			m.answered[ctx] = true
		}
	}
	return out
}
