package mc

import (
	"crypto/sha256"
	"encoding/binary"

	"go.etcd.io/raft/v3"
	pb "go.etcd.io/raft/v3/raftpb"
)

func (w *World) hasReady(n *Node) bool {
	if n.Stopped || n.Pending != nil || n.ReadyPaused {
		return false
	}
	return n.RN.HasReady()
}

func (w *World) crashFlagSets(n *Node, unsynced bool) []int {
	var out []int
	for f := 0; f < 4; f++ {
		if f&CrashLoseUnsynced != 0 && !unsynced {
			continue
		}
		if w.Sc.CrashFlags != nil {
			ok := false
			for _, x := range w.Sc.CrashFlags {
				if x == f {
					ok = true
				}
			}
			if !ok {
				continue
			}
		}
		out = append(out, f)
	}
	return out
}

func (w *World) stageAllowed(s int) bool {
	if w.Sc.CrashStages == nil {
		return true
	}
	for _, x := range w.Sc.CrashStages {
		if x == s {
			return true
		}
	}
	return false
}

func (w *World) unsyncedNow(n *Node) bool {
	hs, _, _ := n.Disk.VerifDump()
	return !hsEqual(hs, n.SyncedHS)
}

// readyCrashEvents lists the composite crash events for a pending sync Ready.
func (w *World) readyCrashEvents(n *Node, out []Event) []Event {
	vs := n.vs()
	hasSnap := vs.UnstableSnapshot != nil && !vs.UnstableSnapshotInProgress
	nEnts := 0
	if k := int(vs.UnstableOffsetInProgress - vs.UnstableOffset); k < len(vs.UnstableEntries) {
		nEnts = len(vs.UnstableEntries) - k
	}
	cur := &pb.HardState{Term: new(vs.Term), Vote: new(vs.Vote), Commit: new(vs.Committed)}
	hsChanged := !hsEqual(cur, vs.PrevHardSt)
	mustSync := raft.MustSync(cur, vs.PrevHardSt, nEnts)
	hasMsgs := len(vs.Msgs) > 0
	for _, m := range vs.MsgsAfterAppend {
		if m.GetTo() != vs.ID {
			hasMsgs = true
		}
	}
	hasApply := hasSnap || vs.Committed > vs.Applying
	unsynced := w.unsyncedNow(n)
	add := func(stage int, uns bool) {
		if !w.stageAllowed(stage) {
			return
		}
		for _, f := range w.crashFlagSets(n, uns) {
			out = append(out, Event{Kind: EvReadyCrash, Node: uint8(n.ID), Arg: uint16(stage<<4 | f)})
		}
	}
	if hasSnap {
		add(StageSnap, unsynced)
	}
	if nEnts > 0 {
		add(StageEntries, unsynced)
	}
	if hsChanged {
		add(StageHard, (unsynced || hsChanged) && !mustSync)
	}
	if hasMsgs && hasApply {
		add(StageSent, (unsynced || hsChanged) && !mustSync)
	}
	return out
}

func (w *World) appendCrashEvents(n *Node, out []Event) []Event {
	m := n.AppendQ[0]
	unsynced := w.unsyncedNow(n)
	hasHS := m.Term != nil || m.Vote != nil || m.Commit != nil
	add := func(stage int, uns bool) {
		if !w.stageAllowed(stage) {
			return
		}
		for _, f := range w.crashFlagSets(n, uns) {
			out = append(out, Event{Kind: EvAppendCrash, Node: uint8(n.ID), Arg: uint16(stage<<4 | f)})
		}
	}
	if !raft.IsEmptySnap(m.GetSnapshot()) {
		add(StageSnap, unsynced)
	}
	if len(m.GetEntries()) > 0 {
		add(StageEntries, unsynced)
	}
	if hasHS || len(m.GetResponses()) > 0 {
		// persisted (and synced if responses exist) but no response released
		add(StageHard, (unsynced || hasHS) && len(m.GetResponses()) == 0)
	}
	return out
}

func (w *World) mayCrash(n *Node) bool {
	return w.Budget[BCrash] > 0 && !n.Stopped && allowed(w.Sc.CrashNodes, uint8(n.ID))
}

// Enabled lists every environment choice available in this state, in canonical order.
func (w *World) Enabled() []Event {
	if w.Dead {
		return nil
	}
	var out []Event
	// Priority rule (eager Ready handling): a node with a pending Ready handles it
	// before anything else happens anywhere.
	if !w.Sc.LazyReady {
		for _, n := range w.Nodes {
			if w.hasReady(n) {
				out = append(out, Event{Kind: EvReady, Node: uint8(n.ID)})
				if w.mayCrash(n) {
					for _, f := range w.crashFlagSets(n, w.unsyncedNow(n)) {
						if w.stageAllowed(StageNone) {
							out = append(out, Event{Kind: EvCrash, Node: uint8(n.ID), Arg: uint16(f)})
						}
					}
					if !n.Cfg.Async {
						out = w.readyCrashEvents(n, out)
					}
				}
				return out
			}
		}
	}
	// Local work.
	for _, n := range w.Nodes {
		if n.Stopped {
			continue
		}
		id := uint8(n.ID)
		if w.Sc.LazyReady && w.hasReady(n) {
			out = append(out, Event{Kind: EvReady, Node: id})
			if w.mayCrash(n) && !n.Cfg.Async {
				out = w.readyCrashEvents(n, out)
			}
		}
		if n.Pending != nil {
			if n.Stage == 1 {
				out = append(out, Event{Kind: EvReadyApply, Node: id})
			} else {
				out = append(out, Event{Kind: EvAdvance, Node: id})
			}
		}
		if len(n.LocalQ) > 0 {
			out = append(out, Event{Kind: EvLocal, Node: id})
		}
		if len(n.AppendQ) > 0 && !n.AppendPaused {
			out = append(out, Event{Kind: EvAppend, Node: id})
			if w.mayCrash(n) {
				out = w.appendCrashEvents(n, out)
			}
		}
		if len(n.ApplyQ) > 0 && !n.ApplyPaused {
			out = append(out, Event{Kind: EvApply, Node: id})
		}
	}
	// Network.
	d := w.Distinct()
	for k := range d {
		out = append(out, Event{Kind: EvDeliver, Arg: uint16(k)})
	}
	// Local operations.
	for _, n := range w.Nodes {
		if n.Stopped {
			continue
		}
		id := uint8(n.ID)
		capped := w.Sc.MaxTerm > 0 && n.vs().Term >= w.Sc.MaxTerm
		if w.Budget[BTick] > 0 && allowed(w.Sc.TickNodes, id) && !capped {
			out = append(out, Event{Kind: EvTick, Node: id})
		}
		if w.Budget[BCampaign] > 0 && allowed(w.Sc.CampaignNodes, id) && !capped && n.vs().State != raft.StateLeader {
			out = append(out, Event{Kind: EvCampaign, Node: id})
		}
		if w.Budget[BPropose] > 0 && allowed(w.Sc.ProposeNodes, id) {
			cnt := 1
			if w.PropSeq < len(w.Sc.PropBatch) && w.Sc.PropBatch[w.PropSeq] > 1 {
				cnt = w.Sc.PropBatch[w.PropSeq]
			}
			out = append(out, Event{Kind: EvPropose, Node: id, Arg: uint16(cnt)})
		}
		if w.Budget[BProposeConf] > 0 && allowed(w.Sc.ConfNodes, id) {
			for k := range w.Sc.ConfMenu {
				out = append(out, Event{Kind: EvProposeConf, Node: id, Arg: uint16(k)})
			}
		}
		if w.Budget[BRead] > 0 && allowed(w.Sc.ReadNodes, id) {
			out = append(out, Event{Kind: EvReadIndex, Node: id})
		}
		if w.Budget[BForget] > 0 && n.vs().State == raft.StateFollower && n.vs().Lead != 0 {
			out = append(out, Event{Kind: EvForgetLeader, Node: id})
		}
		if w.Budget[BCompact] > 0 && allowed(w.Sc.CompactNodes, id) && min(n.App.Applied, n.vs().Applied) > diskView(n.Disk).BaseIndex && n.App.Applied == n.vs().Applied {
			out = append(out, Event{Kind: EvCompact, Node: id})
		}
		for _, p := range n.SnapObl {
			out = append(out, Event{Kind: EvReportSnap, Node: id, Peer: uint8(p)})
			if w.Budget[BSnapFail] > 0 {
				out = append(out, Event{Kind: EvReportSnap, Node: id, Peer: uint8(p), Arg: 1})
			}
		}
	}
	if w.Budget[BTransfer] > 0 {
		for _, p := range w.Sc.TransferPairs {
			if int(p[0]) <= len(w.Nodes) && !w.Nodes[p[0]-1].Stopped {
				out = append(out, Event{Kind: EvTransfer, Node: p[0], Peer: p[1]})
			}
		}
	}
	if w.Budget[BUnreach] > 0 {
		for _, p := range w.Sc.UnreachPairs {
			if int(p[0]) <= len(w.Nodes) && !w.Nodes[p[0]-1].Stopped && w.Nodes[p[0]-1].vs().State == raft.StateLeader {
				out = append(out, Event{Kind: EvUnreachable, Node: p[0], Peer: p[1]})
			}
		}
	}
	if w.Budget[BSendSnap] > 0 {
		// the application of a leader ships the snapshot its storage holds to a member on its own initiative
		for _, n := range w.Nodes {
			if n.Stopped {
				continue
			}
			vs := n.vs()
			if vs.State != raft.StateLeader {
				continue
			}
			// (read through the hook: MemoryStorage.Snapshot() normalises the stored snapshot in place)
			if _, snap, _ := n.Disk.VerifDump(); snap.GetMetadata().GetIndex() <= InitIndex {
				continue
			}
			for _, pr := range vs.Progress {
				if pr.ID != n.ID && pr.ID <= uint64(w.Sc.N) {
					out = append(out, Event{Kind: EvSendSnap, Node: uint8(n.ID), Peer: uint8(pr.ID)})
				}
			}
		}
	}
	// Faults.
	if w.Budget[BDrop] > 0 {
		for k := range d {
			out = append(out, Event{Kind: EvDrop, Arg: uint16(k)})
		}
	}
	if w.Budget[BDup] > 0 {
		for k := range d {
			out = append(out, Event{Kind: EvDup, Arg: uint16(k)})
		}
	}
	if w.Budget[BPause] > 0 {
		// a storage thread stalls while it has work queued (it resumes when the script says so,
		// or at the latest when the script has ended)
		for _, n := range w.Nodes {
			if n.Cfg.Async && !n.Stopped && len(n.AppendQ) > 0 && !n.AppendPaused {
				out = append(out, Event{Kind: EvPauseAppend, Node: uint8(n.ID), Arg: 1})
			}
			if n.Cfg.Async && !n.Stopped && len(n.ApplyQ) > 0 && !n.ApplyPaused {
				out = append(out, Event{Kind: EvPauseApply, Node: uint8(n.ID), Arg: 1})
			}
		}
	}
	if w.Budget[BDelay] > 0 {
		for _, n := range w.Nodes {
			for k := range w.Net {
				if w.Net[k].M.GetTo() == n.ID && !w.Net[k].Delayed {
					out = append(out, Event{Kind: EvDelay, Node: uint8(n.ID)})
					break
				}
			}
		}
	}
	for _, n := range w.Nodes {
		if w.mayCrash(n) && w.stageAllowed(StageNone) {
			for _, f := range w.crashFlagSets(n, w.unsyncedNow(n)) {
				out = append(out, Event{Kind: EvCrash, Node: uint8(n.ID), Arg: uint16(f)})
			}
		}
	}
	return out
}

// Quiescent reports whether nothing but budgeted environment operations is enabled.
func (w *World) Quiescent() bool {
	for k := range w.Net {
		if !w.Net[k].Delayed || w.PC >= len(w.Sc.Script) {
			return false
		}
	}
	for _, n := range w.Nodes {
		if n.Stopped {
			continue
		}
		if n.Pending != nil || (len(n.AppendQ) > 0 && !n.AppendPaused) || (len(n.ApplyQ) > 0 && !n.ApplyPaused) || len(n.LocalQ) > 0 || w.hasReady(n) {
			return false
		}
	}
	return true
}

// ---------------------------------------------------------------- key

// keyScratch is reused by Key; every worker process explores single-threaded.
var keyScratch []byte

func (w *World) nodeFingerprint(n *Node) []byte {
	b := make([]byte, 0, 512)
	b = raft.VerifFingerprintState(b, n.vs())
	b = append(b, 0xfe)
	b = n.Disk.VerifFingerprint(b)
	b = binary.AppendUvarint(b, n.SyncedHS.GetTerm())
	b = binary.AppendUvarint(b, n.SyncedHS.GetVote())
	b = binary.AppendUvarint(b, n.SyncedHS.GetCommit())
	b = binary.AppendUvarint(b, n.App.Applied)
	b = binary.LittleEndian.AppendUint64(b, n.App.Chain)
	b = append(b, enc(n.App.CS)...)
	b = append(b, 0xfd, byte(n.Stage))
	if n.Stopped {
		b = append(b, 1)
	} else {
		b = append(b, 0)
	}
	if n.ApplyPaused {
		b = append(b, 2)
	}
	if n.AppendPaused {
		b = append(b, 3)
	}
	if n.ReadyPaused {
		b = append(b, 4)
	}
	for _, q := range [][]*pb.Message{n.AppendQ, n.ApplyQ, n.LocalQ} {
		b = binary.AppendUvarint(b, uint64(len(q)))
		for _, m := range q {
			e := enc(m)
			b = binary.AppendUvarint(b, uint64(len(e)))
			b = append(b, e...)
		}
	}
	b = binary.AppendUvarint(b, uint64(len(n.SnapObl)))
	for _, p := range n.SnapObl {
		b = binary.AppendUvarint(b, p)
	}
	return b
}

// Key is the canonical 128-bit identity of the state. With ordered=true the send
// order of in-flight messages is part of it (needed when the scheduler's default
// choice depends on that order).
func (w *World) Key(ordered bool) [16]byte {
	b := keyScratch[:0]
	for _, n := range w.Nodes {
		if n.fp == nil {
			n.fp = w.nodeFingerprint(n)
		}
		b = append(b, n.fp...)
	}
	b = append(b, 0xfc)
	if ordered {
		// rank of each message in send order
		idx := make([]int, len(w.Net))
		for i := range idx {
			idx[i] = i
		}
		// insertion sort by Seq (Net is small)
		for i := 1; i < len(idx); i++ {
			for j := i; j > 0 && w.Net[idx[j]].Seq < w.Net[idx[j-1]].Seq; j-- {
				idx[j], idx[j-1] = idx[j-1], idx[j]
			}
		}
		for _, i := range idx {
			b = binary.AppendUvarint(b, uint64(len(w.Net[i].Enc)))
			b = append(b, w.Net[i].Enc...)
			if w.Net[i].Delayed {
				b = append(b, 0xd1)
			}
		}
	} else {
		for i := range w.Net {
			b = binary.AppendUvarint(b, uint64(len(w.Net[i].Enc)))
			b = append(b, w.Net[i].Enc...)
			if w.Net[i].Delayed {
				b = append(b, 0xd1)
			}
		}
	}
	b = append(b, 0xfb)
	for _, v := range w.Budget {
		b = binary.AppendVarint(b, int64(v))
	}
	b = binary.AppendUvarint(b, uint64(w.PropSeq))
	b = binary.AppendUvarint(b, uint64(w.ReadSeq))
	b = binary.AppendUvarint(b, uint64(w.PC))
	for i := range w.Blocked {
		for j := range w.Blocked[i] {
			if w.Blocked[i][j] {
				b = append(b, byte(i), byte(j))
			}
		}
	}
	for i, h := range w.HoldFrom {
		if h != 0 {
			b = append(b, 0xe0, byte(i), h)
		}
	}
	b = append(b, 0xfa)
	for _, m := range w.Mons {
		b = m.History(b)
		b = append(b, 0xf9)
	}
	keyScratch = b
	s := sha256.Sum256(b)
	var k [16]byte
	copy(k[:], s[:16])
	return k
}
