package mc

// relabel wraps a monitor and reports its violations under another property
// (used where a property's statement includes the consequences for others, e.g.
// C05: "a crash ... never invalidates C01-C04"). With afterCrash set, only
// violations on executions that contain a crash are reported.
type relabel struct {
	inner      Monitor
	prop       string
	afterCrash bool
	crashed    bool
}

func (r *relabel) Prop() string  { return r.prop }
func (r *relabel) Init(w *World) { r.inner.Init(w) }
func (r *relabel) Clone() Monitor {
	return &relabel{inner: r.inner.Clone(), prop: r.prop, afterCrash: r.afterCrash, crashed: r.crashed}
}
func (r *relabel) History(b []byte) []byte {
	if r.crashed {
		b = append(b, 1)
	} else {
		b = append(b, 0)
	}
	return r.inner.History(b)
}
func (r *relabel) OnEvent(w *World, rec *StepRec) []*Violation {
	if rec.Crashed {
		r.crashed = true
	}
	vs := r.inner.OnEvent(w, rec)
	if r.afterCrash && !r.crashed {
		return nil
	}
	var out []*Violation
	for _, v := range vs {
		out = append(out, &Violation{Prop: r.prop, Oracle: v.Prop + "-" + v.Oracle, Detail: v.Detail})
	}
	return out
}
