package mc

import (
	"verif/nodexspec"
	"crypto/sha256"
	"encoding/binary"
	"fmt"
	"os"
	"sort"
	"sync"
	"time"
)

// Monitor is a property oracle evaluated on every transition.
type Monitor interface {
	Prop() string
	Init(w *World)
	OnEvent(w *World, rec *StepRec) []*Violation
	// History appends the part of the monitor's memory that can change a future
	// verdict; it is part of the state key.
	History(b []byte) []byte
	// Clone returns an independent copy (used when a world is cloned).
	Clone() Monitor
}

// MonitorFactory builds a fresh set of monitors for one world.
type MonitorFactory func() []Monitor

// Found is a violation together with the path that produced it.
type Found struct {
	V        *Violation
	Scenario string
	Path     []Event
	Trace    []string
	Known    string // id of the known finding this violation is attributed to ("" = none)
	NodeOps  []nodexspec.Op `json:",omitempty"` // strategy "nodex"
}

// Result aggregates one exploration.
type Result struct {
	Scenario    string
	Strategy    string
	States      int64
	Transitions int64
	Replays     int64 // executions re-run from scratch on fresh real objects, final key compared
	PrefixChecks int64 // replays in which every prefix key was compared as well
	MaxDepth    int
	Terminal    int64
	Outcomes    map[string]int64
	Exhaustive  bool
	Caps        []string
	Found       []*Found
	Samples     [][]string
	Counters    map[string]int
	Executions  int64 // D-DFS: complete executions
	DevBound    int
	WallS       float64
	HarnessErr  string
	Digest      string // C19: digest over (state key, output hash) of all states in discovery order
}

type stateRec struct {
	parent int32
	ev     Event
	depth  int32
	key    [16]byte
	out    uint64
	live   *World // kept until the state is expanded (bounded by Limits.LiveCap)
}

// Limits bounds one exploration.
type Limits struct {
	MaxStates int
	MaxDepth  int
	Deadline  time.Time
	Par       int
	MaxFound  int
	// OnState, if set, is called for every newly discovered state with a world
	// positioned in it (used by the convergence check); it may return violations.
	OnState func(w *World) []*Violation
	// Classify returns the id of the known finding a violation is attributed to ("" = none).
	Classify func(path []Event, v *Violation) string
	// LiveCap bounds the number of frontier states kept as live worlds (others are
	// rebuilt by replay). Live states are still validated by replay on a sample.
	LiveCap int
	// Determinism turns the run into the C19 check: every state is rebuilt from
	// scratch and its key and output hash must equal those obtained incrementally.
	Determinism bool
	// Convergence: the run is the C15 check (executions that never fall silent are violations).
	Convergence bool
	// ValidateEvery: every n-th complete D-DFS execution is re-run from scratch (0 = default 10).
	ValidateEvery int
}

func (l Limits) validateEvery() int64 {
	if l.ValidateEvery > 0 {
		return int64(l.ValidateEvery)
	}
	return 10
}

// Replay builds a fresh world and applies the path; it returns the world and the
// record of the last event.
func Replay(sc *Scenario, mf MonitorFactory, path []Event) (*World, *StepRec) {
	w := NewWorld(sc, mf())
	var rec *StepRec
	w.runPrefix()
	for _, ev := range path {
		rec = w.Apply(ev)
	}
	return w, rec
}

// replayCheck is Replay that also reports the first violation met on the way.
func replayCheck(sc *Scenario, mf MonitorFactory, path []Event) (*World, []*Violation, int) {
	w := NewWorld(sc, mf())
	w.runPrefix()
	for i, ev := range path {
		rec := w.Apply(ev)
		if len(rec.Violations) > 0 {
			return w, rec.Violations, i + 1
		}
	}
	return w, nil, len(path)
}

// defaultChoice is the deterministic default scheduler: pending local work first
// (lowest node), then the oldest in-flight message.
func (w *World) defaultChoice() (Event, bool) {
	if w.Dead {
		return Event{}, false
	}
	for _, n := range w.Nodes {
		if n.Stopped {
			continue
		}
		id := uint8(n.ID)
		if w.hasReady(n) {
			return Event{Kind: EvReady, Node: id}, true
		}
		if n.Pending != nil {
			if n.Stage == 1 {
				return Event{Kind: EvReadyApply, Node: id}, true
			}
			return Event{Kind: EvAdvance, Node: id}, true
		}
		if len(n.LocalQ) > 0 {
			return Event{Kind: EvLocal, Node: id}, true
		}
		if len(n.AppendQ) > 0 && !n.AppendPaused {
			return Event{Kind: EvAppend, Node: id}, true
		}
		if len(n.ApplyQ) > 0 && !n.ApplyPaused {
			return Event{Kind: EvApply, Node: id}, true
		}
	}
	best := -1
	for i := range w.Net {
		// delayed messages wait until the script has ended
		if w.Net[i].Delayed && w.PC < len(w.Sc.Script) {
			continue
		}
		if best < 0 || w.Net[i].Seq < w.Net[best].Seq {
			best = i
		}
	}
	if best >= 0 {
		// translate to the index among distinct messages
		d := w.Distinct()
		for k, pos := range d {
			if w.Net[pos].Enc == w.Net[best].Enc {
				return Event{Kind: EvDeliver, Arg: uint16(k)}, true
			}
		}
	}
	return Event{}, false
}

// runPrefix executes the scenario's prefix (budgets are not charged).
func (w *World) runPrefix() {
	if len(w.Sc.Prefix) == 0 {
		return
	}
	saved := w.Budget
	for _, ev := range w.Sc.Prefix {
		w.runDefaultUntilQuiet()
		w.Apply(ev)
	}
	w.runDefaultUntilQuiet()
	w.Budget = saved
}

func (w *World) runDefaultUntilQuiet() {
	for i := 0; i < 10000; i++ {
		ev, ok := w.defaultChoice()
		if !ok {
			return
		}
		w.Apply(ev)
	}
	panic("harness: prefix does not quiesce")
}

func (w *World) outcome() string {
	s := ""
	for _, n := range w.Nodes {
		s += fmt.Sprintf("%d:%s/t%d/c%d/l%d/a%d ", n.ID, n.vs().State.String()[5:], n.vs().Term, n.vs().Committed, n.vs().LastIndex, n.App.Applied)
	}
	return s
}

func pathOf(states []stateRec, idx int32) []Event {
	var rev []Event
	for i := idx; i > 0; i = states[i].parent {
		rev = append(rev, states[i].ev)
	}
	for l, r := 0, len(rev)-1; l < r; l, r = l+1, r-1 {
		rev[l], rev[r] = rev[r], rev[l]
	}
	return rev
}

// Describe re-executes a path and renders it in readable form.
func Describe(sc *Scenario, mf MonitorFactory, path []Event) []string {
	w := NewWorld(sc, mf())
	var out []string
	w.runPrefix()
	for _, ev := range sc.Prefix {
		out = append(out, "prefix: "+ev.String())
	}
	for _, ev := range path {
		rec := w.Apply(ev)
		s := ev.String()
		if d := rec.Desc(); d != "" {
			s += "  " + d
		}
		if rec.OpErr != nil {
			s += "  err=" + rec.OpErr.Error()
		}
		if rec.Panic != nil {
			s += fmt.Sprintf("  PANIC: %v", rec.Panic)
		}
		if rec.Restarted {
			s += fmt.Sprintf("  restarted(applied=%d)", rec.RestartApplied)
		}
		for _, v := range rec.Violations {
			s += "  VIOLATION " + v.String()
		}
		out = append(out, s)
	}
	out = append(out, "final: "+w.outcome())
	return out
}

type cand struct {
	parent int32
	evIdx  int
	ev     Event
	key    [16]byte
	out    uint64
	viol   []*Violation
	term   bool
	outc   string
	nEn    int
	hook   []*Violation
	world  *World
}

// BFS explores every interleaving of the scenario's alphabet within its budgets.
func BFS(sc *Scenario, mf MonitorFactory, lim Limits) *Result {
	start := time.Now()
	res := &Result{Scenario: sc.Name, Strategy: "E-BFS", Outcomes: map[string]int64{}, Exhaustive: true, Counters: map[string]int{}}
	lim.Par = 1 // worlds share nodes copy-on-write and Key uses a scratch buffer: single-threaded
	if lim.MaxFound <= 0 {
		lim.MaxFound = 20
	}
	if lim.LiveCap == 0 {
		lim.LiveCap = 30000
		if v := os.Getenv("VERIF_LIVECAP"); v != "" {
			fmt.Sscan(v, &lim.LiveCap)
		}
	}
	if lim.MaxDepth == 0 {
		lim.MaxDepth = sc.MaxDepth
	}
	if lim.MaxStates == 0 {
		lim.MaxStates = sc.MaxStates
	}
	root, _ := Replay(sc, mf, nil)
	states := []stateRec{{parent: -1, key: root.Key(false), out: root.Out}}
	visited := map[[16]byte]int32{states[0].key: 0}
	frontier := []int32{0}
	res.States = 1
	if lim.OnState != nil {
		for _, v := range lim.OnState(root) {
			res.Found = append(res.Found, &Found{V: v, Scenario: sc.Name})
		}
	}
	var harnessErr string
	var hmu sync.Mutex
	var detViol []*Found
	sampleEvery := int64(1)
	depth := 0
	for len(frontier) > 0 {
		if lim.MaxDepth > 0 && depth >= lim.MaxDepth {
			res.Exhaustive = false
			res.Caps = append(res.Caps, fmt.Sprintf("depth cap %d reached with %d frontier states; complete below it", lim.MaxDepth, len(frontier)))
			break
		}
		if !lim.Deadline.IsZero() && time.Now().After(lim.Deadline) {
			res.Exhaustive = false
			res.Caps = append(res.Caps, fmt.Sprintf("deadline reached at depth %d with %d frontier states; BFS complete to depth %d", depth, len(frontier), depth))
			break
		}
		// expand the frontier in parallel
		cands := make([][]cand, len(frontier))
		var wg sync.WaitGroup
		next := make(chan int, len(frontier))
		for i := range frontier {
			next <- i
		}
		close(next)
		var replays, prefixChecks int64
		var cmu sync.Mutex
		deadlineHit := false
		for g := 0; g < lim.Par; g++ {
			wg.Add(1)
			go func() {
				defer wg.Done()
				defer func() {
					if r := recover(); r != nil {
						hmu.Lock()
						harnessErr = fmt.Sprintf("harness panic during expansion: %v", r)
						hmu.Unlock()
					}
				}()
				var lr, lp int64
				for fi := range next {
					if !lim.Deadline.IsZero() && fi%64 == 0 && time.Now().After(lim.Deadline) {
						cmu.Lock()
						deadlineHit = true
						cmu.Unlock()
					}
					cmu.Lock()
					dh := deadlineHit
					cmu.Unlock()
					if dh {
						continue
					}
					si := frontier[fi]
					w := states[si].live
					states[si].live = nil
					if w == nil || fi%32 == 0 || lim.Determinism {
						path := pathOf(states, si)
						wr, vs, at := replayCheck(sc, mf, path)
						lr++
						if len(vs) > 0 {
							hmu.Lock()
							for _, v := range vs {
								detViol = append(detViol, &Found{V: v, Scenario: sc.Name, Path: path[:at]})
							}
							hmu.Unlock()
							continue
						}
						if k := wr.Key(false); k != states[si].key || (lim.Determinism && wr.Out != states[si].out) {
							if lim.Determinism {
								hmu.Lock()
								detViol = append(detViol, &Found{V: &Violation{"C19", "same-inputs-same-outputs", fmt.Sprintf("re-executing the path of state %d (depth %d) on fresh objects gave a different state or different outputs (key equal: %v, outputs equal: %v)", si, len(path), k == states[si].key, wr.Out == states[si].out)}, Scenario: sc.Name, Path: path})
								hmu.Unlock()
								continue
							}
							hmu.Lock()
							harnessErr = fmt.Sprintf("divergence while replaying state %d (depth %d): key mismatch", si, len(path))
							hmu.Unlock()
							continue
						}
						if w == nil {
							w = wr
						}
					}
					if lr%64 == 1 && lr > 1 {
						// full prefix validation on a sample of replays
						lp++
						if msg := validatePrefixes(sc, mf, states, si); msg != "" {
							hmu.Lock()
							harnessErr = msg
							hmu.Unlock()
							continue
						}
					}
					en := w.Enabled()
					if len(en) == 0 {
						cands[fi] = append(cands[fi], cand{parent: si, term: true, outc: w.outcome()})
						continue
					}
					var npath []Event
					if sc.NoClone {
						npath = pathOf(states, si)
					}
					for ei, ev := range en {
						var w2 *World
						if sc.NoClone {
							// replay-based successor: the whole path is re-executed on fresh real objects
							w2, _ = Replay(sc, mf, npath)
							lr++
						} else {
							w2 = w.Clone()
						}
						if ei == 0 && !sc.NoClone {
							// validate the clone against its source
							if w2.Key(false) != states[si].key {
								hmu.Lock()
								harnessErr = fmt.Sprintf("clone of state %d differs from its source", si)
								hmu.Unlock()
								break
							}
						}
						rec := w2.Apply(ev)
						c := cand{parent: si, evIdx: ei, ev: ev, viol: rec.Violations, nEn: len(en)}
						if !w2.Dead || len(rec.Violations) == 0 {
							c.key = w2.Key(false)
							c.out = w2.Out
						}
						if len(rec.Violations) == 0 && !w2.Dead {
							if _, seen := visited[c.key]; !seen {
								if lim.OnState != nil {
									c.hook = lim.OnState(w2.Clone())
								}
								c.world = w2
							}
						}
						cands[fi] = append(cands[fi], c)
					}
					// the source must not have been disturbed by what happened to its clones
					if !sc.NoClone && w.Key(false) != states[si].key {
						hmu.Lock()
						harnessErr = fmt.Sprintf("state %d changed while its clones were stepped (aliasing)", si)
						hmu.Unlock()
					}
				}
				cmu.Lock()
				replays += lr
				prefixChecks += lp
				cmu.Unlock()
			}()
		}
		wg.Wait()
		res.Replays += replays
		res.PrefixChecks += prefixChecks
		for _, f := range detViol {
			addFound(res, lim, f)
		}
		detViol = nil
		if harnessErr != "" {
			res.HarnessErr = harnessErr
			res.Exhaustive = false
			break
		}
		if deadlineHit {
			res.Exhaustive = false
			res.Caps = append(res.Caps, fmt.Sprintf("deadline reached while expanding depth %d (%d frontier states); BFS complete to depth %d", depth, len(frontier), depth))
			break
		}
		// merge deterministically
		var nf []int32
		for fi := range frontier {
			for _, c := range cands[fi] {
				if c.term {
					res.Terminal++
					res.Outcomes[c.outc]++
					continue
				}
				res.Transitions++
				if len(c.viol) > 0 {
					p := append(pathOf(states, c.parent), c.ev)
					for _, v := range c.viol {
						addFound(res, lim, &Found{V: v, Scenario: sc.Name, Path: p})
					}
					continue // do not explore beyond a violation
				}
				if _, seen := visited[c.key]; seen {
					continue
				}
				idx := int32(len(states))
				st := stateRec{parent: c.parent, ev: c.ev, depth: int32(depth + 1), key: c.key, out: c.out}
				if len(nf) < lim.LiveCap {
					st.live = c.world
				}
				states = append(states, st)
				visited[c.key] = idx
				nf = append(nf, idx)
				res.States++
				if len(c.hook) > 0 {
					p := pathOf(states, idx)
					for _, v := range c.hook {
						addFound(res, lim, &Found{V: v, Scenario: sc.Name, Path: p})
					}
				}
				if res.States%sampleEvery == 0 && len(res.Samples) < 3 && depth >= 6 {
					res.Samples = append(res.Samples, Describe(sc, mf, pathOf(states, idx)))
					sampleEvery *= 50
				}
			}
		}
		frontier = nf
		depth++
		if depth > res.MaxDepth && len(nf) > 0 {
			res.MaxDepth = depth
		}
		if lim.MaxStates > 0 && len(states) > lim.MaxStates {
			res.Exhaustive = false
			res.Caps = append(res.Caps, fmt.Sprintf("state cap %d reached at depth %d; BFS complete to depth %d", lim.MaxStates, depth, depth))
			break
		}
		if unknownFound(res) >= lim.MaxFound {
			res.Exhaustive = false
			res.Caps = append(res.Caps, "stopped after reaching the violation cap")
			break
		}
	}
	if lim.Determinism {
		h := sha256.New()
		for i := range states {
			h.Write(states[i].key[:])
			var b [8]byte
			binary.LittleEndian.PutUint64(b[:], states[i].out)
			h.Write(b[:])
		}
		res.Digest = fmt.Sprintf("%x", h.Sum(nil)[:12])
	}
	if len(res.Samples) == 0 && len(states) > 1 {
		res.Samples = append(res.Samples, Describe(sc, mf, pathOf(states, int32(len(states)-1))))
	}
	for _, f := range res.Found {
		f.Trace = Describe(sc, mf, f.Path)
	}
	res.WallS = time.Since(start).Seconds()
	return res
}

// addFound records a violation, attributing it to a known finding where its
// history carries that finding's signature. Known findings are counted and two
// examples are kept; they do not count against the violation cap.
func addFound(res *Result, lim Limits, f *Found) {
	if lim.Classify != nil {
		f.Known = lim.Classify(f.Path, f.V)
	}
	if f.Known != "" {
		res.Counters["known:"+f.Known]++
		if res.Counters["known:"+f.Known] > 2 {
			return
		}
		res.Found = append(res.Found, f)
		return
	}
	if unknownFound(res) < lim.MaxFound {
		res.Found = append(res.Found, f)
	}
}

func unknownFound(res *Result) int {
	n := 0
	for _, f := range res.Found {
		if f.Known == "" {
			n++
		}
	}
	return n
}

// validatePrefixes re-executes the path of state si on fresh objects and compares
// the key and the output hash of every prefix with the recorded ones.
func validatePrefixes(sc *Scenario, mf MonitorFactory, states []stateRec, si int32) string {
	var chain []int32
	for i := si; i >= 0; i = states[i].parent {
		chain = append(chain, i)
		if i == 0 {
			break
		}
	}
	sort.Slice(chain, func(a, b int) bool { return states[chain[a]].depth < states[chain[b]].depth })
	w, _ := Replay(sc, mf, nil)
	for _, idx := range chain {
		if idx != 0 {
			w.Apply(states[idx].ev)
		}
		if w.Key(false) != states[idx].key {
			return fmt.Sprintf("divergence while replaying a prefix of state %d at depth %d: key mismatch", si, states[idx].depth)
		}
		if w.Out != states[idx].out {
			return fmt.Sprintf("C19-DIVERGENCE state %d depth %d: same path, different outputs", si, states[idx].depth)
		}
	}
	return ""
}
