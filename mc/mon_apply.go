package mc

import (
	"encoding/binary"
	"fmt"

	"go.etcd.io/raft/v3"
	pb "go.etcd.io/raft/v3/raftpb"
)

// MonC08 checks the apply stream: contiguous, ascending, exactly once per
// incarnation, within commit, durable in async mode, and silent while a
// snapshot install is outstanding.
type MonC08 struct {
	cursor      []uint64
	snapPending []bool
	shared      bool
}

func NewMonC08() *MonC08 { return &MonC08{} }
func (m *MonC08) Prop() string { return "C08" }
func (m *MonC08) Init(w *World) {
	m.cursor = make([]uint64, len(w.Nodes))
	m.snapPending = make([]bool, len(w.Nodes))
	for i := range w.Nodes {
		m.cursor[i] = w.Nodes[i].vs().Applied
	}
}
func (m *MonC08) Clone() Monitor {
	m.shared = true
	c := *m
	return &c
}
func (m *MonC08) own() {
	if m.shared {
		m.cursor, m.snapPending, m.shared = append([]uint64(nil), m.cursor...), append([]bool(nil), m.snapPending...), false
	}
}
func (m *MonC08) History(b []byte) []byte {
	for i := range m.cursor {
		b = binary.AppendUvarint(b, m.cursor[i])
		if m.snapPending[i] {
			b = append(b, 1)
		} else {
			b = append(b, 0)
		}
	}
	return b
}

func (m *MonC08) OnEvent(w *World, rec *StepRec) []*Violation {
	if rec.Node < 0 || w.Dead {
		return nil
	}
	var out []*Violation
	i := rec.Node
	n := w.Nodes[i]
	if rec.Restarted {
		m.own()
		// raft starts applying after max(first index - 1, Config.Applied)
		m.cursor[i] = max(rec.RestartApplied, diskView(n.Disk).BaseIndex)
		m.snapPending[i] = false
		if got := n.vs().Applied; got != m.cursor[i] {
			out = append(out, &Violation{"C08", "restart-applied", fmt.Sprintf("node %d restarted with Applied=%d over a log starting after %d but starts applying after %d", n.ID, rec.RestartApplied, diskView(n.Disk).BaseIndex, got)})
		}
		return out
	}
	// the acknowledgement of a snapshot install is stepped
	for _, l := range rec.LocalStep {
		if l.GetType() == pb.MsgStorageAppendResp && !raft.IsEmptySnap(l.GetSnapshot()) && m.snapPending[i] {
			m.own()
			m.snapPending[i] = false
		}
	}
	if rd := rec.Ready; rd != nil {
		var batch []*pb.Entry
		hasSnap := !raft.IsEmptySnap(rd.Snapshot)
		if n.Cfg.Async {
			for _, q := range rec.QueuedLocal {
				if q.GetType() == pb.MsgStorageApply {
					batch = append(batch, q.GetEntries()...)
				}
			}
		} else {
			batch = rd.CommittedEntries
		}
		if (hasSnap || m.snapPending[i]) && len(batch) > 0 {
			out = append(out, &Violation{"C08", "no-apply-during-snapshot", fmt.Sprintf("node %d handed out entries %d..%d while the install of a snapshot is outstanding", n.ID, batch[0].GetIndex(), batch[len(batch)-1].GetIndex())})
		}
		if hasSnap {
			m.own()
			sidx := rd.Snapshot.GetMetadata().GetIndex()
			if sidx <= m.cursor[i] {
				out = append(out, &Violation{"C08", "snapshot-above-cursor", fmt.Sprintf("node %d was handed snapshot %d at or below its apply cursor %d", n.ID, sidx, m.cursor[i])})
			}
			m.cursor[i] = max(m.cursor[i], sidx)
			m.snapPending[i] = true
		}
		if len(batch) > 0 {
			m.own()
			if first := batch[0].GetIndex(); first != m.cursor[i]+1 {
				out = append(out, &Violation{"C08", "contiguous", fmt.Sprintf("node %d was handed a batch starting at %d, expected %d", n.ID, first, m.cursor[i]+1)})
			}
			for k, e := range batch {
				if e.GetIndex() != batch[0].GetIndex()+uint64(k) {
					out = append(out, &Violation{"C08", "contiguous", fmt.Sprintf("node %d: batch not contiguous at position %d (index %d)", n.ID, k, e.GetIndex())})
					break
				}
			}
			last := batch[len(batch)-1].GetIndex()
			commit := rec.Pre.Committed
			if rd.HardState != nil && rd.HardState.GetCommit() > commit {
				commit = rd.HardState.GetCommit()
			}
			if last > commit {
				out = append(out, &Violation{"C08", "within-commit", fmt.Sprintf("node %d was handed entry %d beyond its commit index %d", n.ID, last, commit)})
			}
			if n.Cfg.Async {
				dv := diskView(n.Disk)
				for _, e := range batch {
					if de := dv.Entry(e.GetIndex()); de == nil || !entEqual(de, e) {
						out = append(out, &Violation{"C08", "async-only-durable", fmt.Sprintf("node %d (async) was handed %s which is not on its stable storage (%s)", n.ID, entStr(e), entStr(de))})
						break
					}
				}
			}
			m.cursor[i] = last
		}
		if !n.Cfg.Async && hasSnap && !w.Sc.SplitReady {
			// the eager Ready cycle ends with Advance, which acknowledges the snapshot
			m.snapPending[i] = false
		}
	}
	if rec.Ev.Kind == EvAdvance && m.snapPending[i] {
		m.own()
		m.snapPending[i] = false
	}
	return out
}
