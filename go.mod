module verif

go 1.26

toolchain go1.26.7

require (
	go.etcd.io/raft/v3 v3.0.0
	google.golang.org/protobuf v1.36.12
)

replace go.etcd.io/raft/v3 => /repo
