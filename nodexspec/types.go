// Package nodexspec holds the data types and the catalogue of the Node explorer
// (package nodex), separately from the explorer itself so that the coordinator can
// describe jobs without linking testing/synctest.
package nodexspec

import "fmt"

// OpKind is a class of client operation.
type OpKind uint8

const (
	OpTick OpKind = iota
	OpCampaign
	OpPropose     // A = 0
	OpProposeConf // A = conf menu index
	OpReadIndex
	OpStep // A = message menu index
	OpReady
	OpAdvance
	OpTransfer   // A = transferee
	OpUnreach    // A = peer
	OpSnapStatus // A = 0 finish, 1 failure (peer 2)
	OpForget
	OpRestart
	OpAppendDone // async: the append thread handles the head of its queue
	OpApplyDone  // async: the apply thread handles the head of its queue
	OpStatus
	OpProposeWait // a client calls Propose and keeps waiting if the Node does not take the proposal yet
	NumOps
)

var OpNames = [...]string{"Tick", "Campaign", "Propose", "ProposeConfChange", "ReadIndex", "Step", "Ready", "Advance",
	"TransferLeadership", "ReportUnreachable", "ReportSnapshot", "ForgetLeader", "Restart", "AppendDone", "ApplyDone", "Status", "Propose(waiting)"}

// Op is one client operation.
type Op struct {
	K OpKind
	A int
}

func (o Op) String() string {
	switch o.K {
	case OpStep:
		return fmt.Sprintf("Step(%s)", MsgMenuNames[o.A])
	case OpProposeConf, OpTransfer, OpUnreach, OpSnapStatus:
		return fmt.Sprintf("%s(%d)", OpNames[o.K], o.A)
	}
	return OpNames[o.K]
}

// Spec is one exploration: a node, its features, an alphabet with budgets and a depth.
type Spec struct {
	Name                   string
	Voters                 []uint64
	Learners               []uint64
	Async                  bool
	PreVote                bool
	CheckQuorum            bool
	StepDown               bool
	NoForward              bool
	Prefix                 []Op
	Ops                    []Op // alphabet (enabledness is decided per state)
	MaxProposals, MaxReads int  // proposals and reads carry a counter in their payload, so they are bounded per path
	Depth                  int
	MaxStates              int
	ConfMenu               []string // raftpb.ConfChangesFromString syntax; "" = leave joint
	Seconds                float64
}

// Violation is a divergence between the Node and the reference, or a broken rule.
type Violation struct {
	Prop, Oracle, Detail string
}

func (v *Violation) String() string { return v.Prop + "/" + v.Oracle + ": " + v.Detail }

// Found is a violation with the operation sequence that produced it.
type Found struct {
	V     *Violation
	Spec  string
	Ops   []Op
	Trace []string
}

// Result of one exploration.
type Result struct {
	Scenario    string
	States      int64
	Transitions int64
	Replays     int64
	MaxDepth    int
	Exhaustive  bool
	Caps        []string
	Outcomes    map[string]int64
	Found       []*Found
	WallS       float64
	HarnessErr  string
	Samples     [][]string
}

// MsgMenuNames names the inbound messages of the Step menu.
var MsgMenuNames = [...]string{
	"MsgVoteResp grant from 2", "MsgVoteResp grant from 3", "MsgPreVoteResp grant from 2", "MsgHeartbeat from leader 2",
	"MsgApp(one entry, commit=last) from leader 2", "MsgAppResp(last) from 2", "MsgAppResp(last) from 3", "MsgHeartbeatResp from 2",
	"MsgVote from 3 at term+1", "forwarded MsgProp from 2", "MsgAppResp from unknown peer 9", "MsgHup arriving over the network",
	"MsgSnap from leader 2", "MsgTimeoutNow from 2", "forwarded MsgReadIndex from 2", "MsgApp(conf change removing this node) from leader 2",
	"MsgApp(conf change adding node 4) from leader 2", "MsgVoteResp reject from 2", "MsgAppResp reject from 2", "MsgPreVoteResp grant from 3",
}

// WorkerSpec is what the coordinator hands to the test binary (file named by NODEX_SPEC).
type WorkerSpec struct {
	Spec   *Spec
	Replay []Op // non-nil: re-execute this operation list instead of exploring
}

// WorkerOut is what it writes back (file named by NODEX_OUT).
type WorkerOut struct {
	Result    *Result
	Violation *Violation
	Trace     []string
}
