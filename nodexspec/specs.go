package nodexspec

import "fmt"

func stepOps(ks ...int) []Op {
	var out []Op
	for _, k := range ks {
		out = append(out, Op{OpStep, k})
	}
	return out
}

// alphabet returns the full operation menu for a spec.
func alphabet(async bool, confs int) []Op {
	ops := []Op{{OpReady, 0}}
	if async {
		ops = append(ops, Op{OpAppendDone, 0}, Op{OpApplyDone, 0})
	} else {
		ops = append(ops, Op{OpAdvance, 0})
	}
	ops = append(ops, Op{OpPropose, 0}, Op{OpProposeWait, 0}, Op{OpCampaign, 0}, Op{OpTick, 0}, Op{OpReadIndex, 0})
	for i := 0; i < confs; i++ {
		ops = append(ops, Op{OpProposeConf, i})
	}
	for k := range MsgMenuNames {
		ops = append(ops, Op{OpStep, k})
	}
	ops = append(ops, Op{OpTransfer, 2}, Op{OpUnreach, 2}, Op{OpSnapStatus, 0}, Op{OpSnapStatus, 1}, Op{OpForget, 0}, Op{OpRestart, 0}, Op{OpStatus, 0})
	return ops
}

// Specs returns the explorations of a tier.
func Specs(tier string) []*Spec {
	depth := 4
	if tier == "thorough" {
		depth = 6
	}
	type root struct {
		name   string
		learn  []uint64
		voters []uint64
		prefix func(async bool) []Op
		confs  []string
	}
	cyc := func(async bool) []Op {
		if async {
			return []Op{{OpReady, 0}, {OpAppendDone, 0}}
		}
		return []Op{{OpReady, 0}, {OpAdvance, 0}}
	}
	cat := func(parts ...[]Op) []Op {
		var out []Op
		for _, p := range parts {
			out = append(out, p...)
		}
		return out
	}
	roots := []root{
		{"fresh", nil, []uint64{1, 2, 3}, func(bool) []Op { return nil }, []string{"v4"}},
		{"leader", nil, []uint64{1, 2, 3}, func(a bool) []Op {
			return cat([]Op{{OpCampaign, 0}}, cyc(a), stepOps(0), cyc(a))
		}, []string{"r1", "v4"}},
		{"follower", nil, []uint64{1, 2, 3}, func(a bool) []Op { return cat(stepOps(4), cyc(a)) }, []string{"v4"}},
		{"singleton", nil, []uint64{1}, func(a bool) []Op { return cat([]Op{{OpCampaign, 0}}, cyc(a)) }, []string{"v2", "l2"}},
		// a leader whose own removal is committed and about to be applied
		{"leader-removing-itself", nil, []uint64{1, 2, 3}, func(a bool) []Op {
			return cat([]Op{{OpCampaign, 0}}, cyc(a), stepOps(0), cyc(a), stepOps(5), cyc(a), []Op{{OpProposeConf, 0}}, cyc(a), stepOps(5))
		}, []string{"r1", "v1"}},
		// a follower that has stored (not yet committed) its own removal
		{"follower-being-removed", nil, []uint64{1, 2, 3}, func(a bool) []Op { return cat(stepOps(15), cyc(a)) }, []string{"v1"}},
		// a learner that follows leader 2 and has stored (not yet committed) the addition of node 4
		{"learner", []uint64{1}, []uint64{2, 3}, func(a bool) []Op { return cat(stepOps(16), cyc(a)) }, []string{"v1"}},
	}
	var out []*Spec
	for _, r := range roots {
		for _, async := range []bool{false, true} {
			for _, feat := range []int{0, 1} {
				if feat == 1 && (r.name == "singleton" || r.name == "follower-being-removed" || r.name == "learner") {
					continue
				}
				sp := &Spec{
					Name:   fmt.Sprintf("nodex/%s/%s/%s", r.name, map[bool]string{false: "sync", true: "async"}[async], []string{"plain", "prevote+checkquorum"}[feat]),
					Voters: r.voters, Learners: r.learn, Async: async, PreVote: feat == 1, CheckQuorum: feat == 1, StepDown: feat == 1,
					Ops: alphabet(async, len(r.confs)), MaxProposals: 2, MaxReads: 1, Depth: depth, ConfMenu: r.confs,
				}
				if feat == 1 && r.name == "leader" {
					// a pre-vote campaign needs one more round
					sp.Prefix = cat([]Op{{OpCampaign, 0}}, cyc(async), stepOps(2), cyc(async), stepOps(0), cyc(async))
				} else if feat == 1 && r.name == "leader-removing-itself" {
					sp.Prefix = cat([]Op{{OpCampaign, 0}}, cyc(async), stepOps(2), cyc(async), r.prefix(async)[3:])
				} else {
					sp.Prefix = r.prefix(async)
				}
				out = append(out, sp)
			}
		}
	}
	return out
}
