package nodex

import (
	"encoding/json"
	"os"
	"sync/atomic"
	"testing"
	"testing/synctest"
	"time"

	ns "verif/nodexspec"
)

// TestWorker is the entry point of the Node explorer: the exploration has to run inside a
// testing/synctest bubble, which only a test binary can create.
func TestWorker(t *testing.T) {
	specPath, outPath := os.Getenv("NODEX_SPEC"), os.Getenv("NODEX_OUT")
	if specPath == "" {
		t.Skip("NODEX_SPEC not set")
	}
	raw, err := os.ReadFile(specPath)
	if err != nil {
		t.Fatal(err)
	}
	var ws ns.WorkerSpec
	if err := json.Unmarshal(raw, &ws); err != nil {
		t.Fatal(err)
	}
	if f, err := os.Create(outPath + ".cur"); err == nil {
		CurFile = f
		defer f.Close()
	}
	var expired atomic.Bool
	if ws.Spec.Seconds > 0 {
		time.AfterFunc(time.Duration(ws.Spec.Seconds*float64(time.Second)), func() { expired.Store(true) })
	}
	start := time.Now()
	var out ns.WorkerOut
	synctest.Test(t, func(t *testing.T) {
		if ws.Replay != nil {
			out.Violation, out.Trace = Replay(ws.Spec, ws.Replay)
			return
		}
		out.Result = Explore(ws.Spec, expired.Load)
	})
	if out.Result != nil {
		out.Result.WallS = time.Since(start).Seconds()
	}
	b, _ := json.MarshalIndent(&out, "", " ")
	if err := os.WriteFile(outPath, b, 0o644); err != nil {
		t.Fatal(err)
	}
}
