package nodex

import (
	"fmt"
	"os"
	"strings"
	"sync/atomic"
	"testing"
	"testing/synctest"
	"time"

	ns "verif/nodexspec"
)

func TestDev(t *testing.T) {
	if os.Getenv("NODEX_DEV") == "" {
		t.Skip()
	}
	for _, sp := range ns.Specs("quick") {
		if only := os.Getenv("NODEX_ONLY"); only != "" && !strings.Contains(sp.Name, only) {
			continue
		}
		var expired atomic.Bool
		tm := time.AfterFunc(20*time.Second, func() { expired.Store(true) })
		start := time.Now()
		var res *Result
		synctest.Test(t, func(t *testing.T) { res = Explore(sp, expired.Load) })
		tm.Stop()
		fmt.Printf("%s: states=%d transitions=%d depth=%d exhaustive=%v found=%d err=%q wall=%.1fs outcomes=%d\n", sp.Name, res.States, res.Transitions, res.MaxDepth, res.Exhaustive, len(res.Found), res.HarnessErr, time.Since(start).Seconds(), len(res.Outcomes))
		for _, f := range res.Found {
			fmt.Println("  ", f.V)
			for _, l := range f.Trace {
				fmt.Println("      ", l)
			}
		}
	}
}
