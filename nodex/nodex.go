// Package nodex explores the goroutine/channel front end of the library (node.go)
// exhaustively and binds it to RawNode, which the engine in /verif/mc model-checks.
//
// A raft.Node is one goroutine (node.run) that selects over unbuffered channels.
// Inside a testing/synctest bubble the explorer performs exactly one client
// operation at a time and then waits until every goroutine of the bubble is
// durably blocked (synctest.Wait), i.e. until node.run is parked in its select
// again. With one operation offered at a time the select has at most one ready
// case, so the exploration is deterministic; enumerating all operation sequences
// up to a depth enumerates every sequence of select decisions node.run can take
// with clients that offer these operations (a select over several simultaneously
// ready clients equals one of the sequential orders, because the hand-off through
// an unbuffered channel is the only thing the clients share with node.run).
//
// Every operation is also applied to a reference RawNode with its own storage
// (the "model" of what the channel front end should do), and after every
// operation the complete state behind the Node (VerifFingerprint of the RawNode
// it drives, its storage, what it handed out) has to equal the reference's.
package nodex

import (
	"bytes"
	"context"
	"crypto/sha256"
	"encoding/binary"
	"encoding/json"
	"errors"
	"fmt"
	"os"
	"reflect"
	"testing/synctest"

	"google.golang.org/protobuf/proto"

	"go.etcd.io/raft/v3"
	pb "go.etcd.io/raft/v3/raftpb"
)

import ns "verif/nodexspec"

type (
	OpKind    = ns.OpKind
	Op        = ns.Op
	Spec      = ns.Spec
	Violation = ns.Violation
	Found     = ns.Found
	Result    = ns.Result
)

const (
	OpTick        = ns.OpTick
	OpCampaign    = ns.OpCampaign
	OpPropose     = ns.OpPropose
	OpProposeConf = ns.OpProposeConf
	OpReadIndex   = ns.OpReadIndex
	OpStep        = ns.OpStep
	OpReady       = ns.OpReady
	OpAdvance     = ns.OpAdvance
	OpTransfer    = ns.OpTransfer
	OpUnreach     = ns.OpUnreach
	OpSnapStatus  = ns.OpSnapStatus
	OpForget      = ns.OpForget
	OpRestart     = ns.OpRestart
	OpAppendDone  = ns.OpAppendDone
	OpApplyDone   = ns.OpApplyDone
	OpStatus      = ns.OpStatus
	OpProposeWait = ns.OpProposeWait
)

var msgMenuNames = ns.MsgMenuNames

const self = 1

type side struct {
	st      *raft.MemoryStorage
	applied uint64
	appendQ []*pb.Message
	applyQ  []*pb.Message
	out     [32]byte // running hash of everything handed to the network and of operation results
}

func (s *side) note(parts ...[]byte) {
	h := sha256.New()
	h.Write(s.out[:])
	for _, p := range parts {
		h.Write(p)
		h.Write([]byte{0xff})
	}
	copy(s.out[:], h.Sum(nil))
}

// pair is the Node under test and the reference RawNode, driven in lock step.
type pair struct {
	sp      *Spec
	n       raft.Node
	nrn     *raft.RawNode
	ns      side
	ref     *raft.RawNode
	rs      side
	adv     bool // a Ready was handed out and not yet advanced (sync mode)
	nodeRd  raft.Ready
	refRd   raft.Ready
	props   int
	reads   int
	steps   int
	trace   []string
	stopped bool
	cached  *raft.VerifState
	pend    *pending // a Propose call that is blocked inside the Node
	// removed: this node applied its own removal in this incarnation. node.go then blocks
	// proposals until it notices a leader change ("not very sound" by its own comment), even if
	// the node is re-added meanwhile; the oracles do not demand acceptance from then on.
	removed bool
}

type pending struct {
	data   []byte
	done   chan error
	cancel context.CancelFunc
}

func enc(m proto.Message) []byte {
	b, err := proto.MarshalOptions{Deterministic: true}.Marshal(m)
	if err != nil {
		panic(err)
	}
	return b
}

func config(sp *Spec, st *raft.MemoryStorage, applied uint64) *raft.Config {
	return &raft.Config{
		ID: self, ElectionTick: 3, HeartbeatTick: 1, Storage: st, Applied: applied,
		MaxSizePerMsg: 1 << 20, MaxInflightMsgs: 8, MaxCommittedSizePerReady: 1 << 20,
		PreVote: sp.PreVote, CheckQuorum: sp.CheckQuorum, StepDownOnRemoval: sp.StepDown,
		DisableProposalForwarding: sp.NoForward, AsyncStorageWrites: sp.Async,
		Logger: raft.VerifDiscardLogger(),
	}
}

func newStorage(sp *Spec) *raft.MemoryStorage {
	st := raft.NewMemoryStorage()
	cs := &pb.ConfState{Voters: append([]uint64(nil), sp.Voters...), Learners: append([]uint64(nil), sp.Learners...)}
	snap := &pb.Snapshot{Metadata: &pb.SnapshotMetadata{Index: new(uint64(1)), Term: new(uint64(1)), ConfState: cs}}
	if err := st.ApplySnapshot(snap); err != nil {
		panic(err)
	}
	return st
}

func newPair(sp *Spec) *pair {
	p := &pair{sp: sp}
	p.ns.st, p.rs.st = newStorage(sp), newStorage(sp)
	p.ns.applied, p.rs.applied = 1, 1
	p.start()
	return p
}

func (p *pair) start() {
	p.n = raft.RestartNode(config(p.sp, p.ns.st, p.ns.applied))
	p.nrn = raft.VerifNodeRawNode(p.n)
	var err error
	p.ref, err = raft.NewRawNode(config(p.sp, p.rs.st, p.rs.applied))
	if err != nil {
		panic(err)
	}
	p.adv = false
	p.removed = false
	p.nodeRd, p.refRd = raft.Ready{}, raft.Ready{}
	p.ns.appendQ, p.ns.applyQ, p.rs.appendQ, p.rs.applyQ = nil, nil, nil, nil
	p.settle()
}

// state returns the (cached) dump of the reference; apply invalidates it.
func (p *pair) state() raft.VerifState {
	if p.cached == nil {
		s := p.ref.VerifState()
		p.cached = &s
	}
	return *p.cached
}

// settle waits until node.run is parked and pins the only source of randomness on both sides.
func (p *pair) settle() {
	p.cached = nil
	synctest.Wait()
	p.nrn.VerifSetRandomizedElectionTimeout(3)
	p.ref.VerifSetRandomizedElectionTimeout(3)
}

func (p *pair) stop() {
	if p.pend != nil {
		p.pend.cancel()
		p.pend = nil
	}
	if !p.stopped {
		p.n.Stop()
		p.stopped = true
	}
}

// call runs one blocking client call in its own goroutine. It reports whether the
// call completed once node.run was parked again; a call that is still blocked is
// cancelled (the client gives up), which must leave no trace.
func (p *pair) call(f func(ctx context.Context) error) (err error, blocked bool) {
	ctx, cancel := context.WithCancel(context.Background())
	defer cancel()
	done := make(chan error, 1)
	go func() { done <- f(ctx) }()
	synctest.Wait()
	select {
	case err = <-done:
		return err, false
	default:
	}
	cancel()
	synctest.Wait()
	select {
	case err = <-done:
		return err, true
	default:
		panic("harness: a cancelled client call did not return")
	}
}

func errStr(err error) string {
	if err == nil {
		return "nil"
	}
	return err.Error()
}

// fingerprints
func (p *pair) nodeFP() []byte {
	b := p.nrn.VerifFingerprint(nil)
	b = append(b, '|')
	return p.ns.st.VerifFingerprint(b)
}
func (p *pair) refFP() []byte {
	b := p.ref.VerifFingerprint(nil)
	b = append(b, '|')
	return p.rs.st.VerifFingerprint(b)
}

func qfp(b []byte, q []*pb.Message) []byte {
	b = binary.AppendUvarint(b, uint64(len(q)))
	for _, m := range q {
		b = append(b, enc(m)...)
	}
	return b
}

// key identifies a state of the exploration (reference side; the node side is equal or a violation was raised).
func (p *pair) key() [32]byte {
	b := p.refFP()
	b = append(b, '|')
	if p.adv {
		b = append(b, 1)
	} else {
		b = append(b, 0)
	}
	if p.pend != nil {
		b = append(b, 'P')
	}
	if p.removed {
		b = append(b, 'R')
	}
	b = qfp(b, p.rs.appendQ)
	b = qfp(b, p.rs.applyQ)
	b = binary.AppendUvarint(b, p.rs.applied)
	b = binary.AppendUvarint(b, uint64(p.props))
	b = binary.AppendUvarint(b, uint64(p.reads))
	return sha256.Sum256(b)
}

// ---- inbound message menu -------------------------------------------------

// leaderTerm2 is the term at which the imaginary peer 2 may act as leader towards this node.
func leaderTerm2(s *raft.VerifState) uint64 {
	if s.State == raft.StateLeader || (s.Lead != 0 && s.Lead != 2) || s.Term == 0 {
		return s.Term + 1
	}
	if s.State == raft.StateCandidate && s.Vote == self {
		// 2 cannot have won this term if it needed our vote; it may have won it with 3's vote
		return s.Term
	}
	return s.Term
}

func lastOf(s *raft.VerifState, st *raft.MemoryStorage) (uint64, uint64) {
	if n := len(s.UnstableEntries); n > 0 {
		e := s.UnstableEntries[n-1]
		return e.GetIndex(), e.GetTerm()
	}
	if s.UnstableSnapshot != nil {
		return s.UnstableSnapshot.GetMetadata().GetIndex(), s.UnstableSnapshot.GetMetadata().GetTerm()
	}
	li, _ := st.LastIndex()
	t, _ := st.Term(li)
	return li, t
}

// message builds menu entry k for the reference state s, or nil if it is not plausible there.
func (p *pair) message(k int) *pb.Message {
	s := p.state()
	last, lastTerm := lastOf(&s, p.rs.st)
	isMember := func(id uint64) bool {
		for _, pr := range s.Progress {
			if pr.ID == id {
				return true
			}
		}
		return false
	}
	mk := func(t pb.MessageType, from, term uint64) *pb.Message {
		return &pb.Message{Type: t.Enum(), From: new(from), To: new(uint64(self)), Term: new(term)}
	}
	t2 := leaderTerm2(&s)
	appFrom2 := func(e *pb.Entry) *pb.Message {
		m := mk(pb.MsgApp, 2, t2)
		m.Index, m.LogTerm = new(last), new(lastTerm)
		e.Index, e.Term = new(last+1), new(t2)
		m.Entries = []*pb.Entry{e}
		m.Commit = new(last)
		return m
	}
	switch k {
	case 0, 1, 17:
		if s.State != raft.StateCandidate {
			return nil
		}
		from := uint64(2)
		if k == 1 {
			from = 3
		}
		m := mk(pb.MsgVoteResp, from, s.Term)
		if k == 17 {
			m.Reject = new(true)
		}
		return m
	case 2, 19:
		if s.State != raft.StatePreCandidate {
			return nil
		}
		from := uint64(2)
		if k == 19 {
			from = 3
		}
		return mk(pb.MsgPreVoteResp, from, s.Term+1)
	case 3:
		if !isMember(2) && s.State == raft.StateLeader {
			return nil
		}
		m := mk(pb.MsgHeartbeat, 2, t2)
		m.Commit = new(s.Committed)
		return m
	case 4:
		return appFrom2(&pb.Entry{Type: pb.EntryNormal.Enum(), Data: []byte(fmt.Sprintf("a%d", last+1))})
	case 5, 6, 18:
		if s.State != raft.StateLeader {
			return nil
		}
		from := uint64(2)
		if k == 6 {
			from = 3
		}
		if !isMember(from) {
			return nil
		}
		m := mk(pb.MsgAppResp, from, s.Term)
		m.Index = new(last)
		if k == 18 {
			m.Reject, m.RejectHint, m.LogTerm = new(true), new(uint64(1)), new(uint64(1))
		}
		return m
	case 7:
		if s.State != raft.StateLeader || !isMember(2) {
			return nil
		}
		return mk(pb.MsgHeartbeatResp, 2, s.Term)
	case 8:
		m := mk(pb.MsgVote, 3, s.Term+1)
		m.Index, m.LogTerm = new(last), new(lastTerm)
		return m
	case 9:
		m := &pb.Message{Type: pb.MsgProp.Enum(), From: new(uint64(2)), To: new(uint64(self)),
			Entries: []*pb.Entry{{Data: []byte(fmt.Sprintf("f%d", last+1))}}}
		return m
	case 10:
		m := mk(pb.MsgAppResp, 9, s.Term)
		m.Index = new(last)
		return m
	case 11:
		return &pb.Message{Type: pb.MsgHup.Enum(), From: new(uint64(2)), To: new(uint64(self))}
	case 12:
		if s.State == raft.StateLeader {
			return nil
		}
		m := mk(pb.MsgSnap, 2, t2)
		m.Snapshot = &pb.Snapshot{Data: []byte("snap"), Metadata: &pb.SnapshotMetadata{Index: new(last + 2), Term: new(t2),
			ConfState: &pb.ConfState{Voters: []uint64{1, 2, 3}}}}
		return m
	case 13:
		if s.State != raft.StateFollower || s.Lead != 2 {
			return nil
		}
		return mk(pb.MsgTimeoutNow, 2, s.Term)
	case 14:
		if s.State != raft.StateLeader {
			return nil
		}
		return &pb.Message{Type: pb.MsgReadIndex.Enum(), From: new(uint64(2)), To: new(uint64(self)),
			Entries: []*pb.Entry{{Data: []byte(fmt.Sprintf("fr%d", last))}}}
	case 15, 16:
		if len(s.Voters[1]) > 0 || !isMember(2) {
			return nil
		}
		var cc pb.ConfChangeV2
		if k == 15 {
			cc.Changes = []*pb.ConfChangeSingle{{Type: pb.ConfChangeRemoveNode.Enum(), NodeId: new(uint64(self))}}
		} else {
			cc.Changes = []*pb.ConfChangeSingle{{Type: pb.ConfChangeAddNode.Enum(), NodeId: new(uint64(4))}}
		}
		// only one unapplied conf change at a time, as a real leader would ensure
		if s.Applied < s.LastIndex && p.hasUnappliedConf() {
			return nil
		}
		data, err := proto.Marshal(&cc)
		if err != nil {
			panic(err)
		}
		return appFrom2(&pb.Entry{Type: pb.EntryConfChangeV2.Enum(), Data: data})
	}
	return nil
}

func (p *pair) hasUnappliedConf() bool {
	s := p.state()
	for _, e := range s.UnstableEntries {
		if e.GetIndex() > s.Applied && e.GetType() != pb.EntryNormal {
			return true
		}
	}
	fi, _ := p.rs.st.FirstIndex()
	li, _ := p.rs.st.LastIndex()
	if s.Applied+1 > fi {
		fi = s.Applied + 1
	}
	if fi <= li {
		ents, _ := p.rs.st.Entries(fi, li+1, 1<<30)
		for _, e := range ents {
			if e.GetType() != pb.EntryNormal {
				return true
			}
		}
	}
	return false
}

// ---- operations -----------------------------------------------------------

var errRefPanic = errors.New("reference panicked")

func guard(f func()) (pan any) {
	defer func() { pan = recover() }()
	f()
	return nil
}

// enabled decides whether the operation makes sense in the current (reference) state.
func (p *pair) enabled(o Op) bool {
	s := p.state()
	switch o.K {
	case OpPropose:
		return p.props < p.sp.MaxProposals
	case OpProposeWait:
		return p.props < p.sp.MaxProposals && p.pend == nil
	case OpReadIndex:
		return p.reads < p.sp.MaxReads
	case OpReady:
		return !p.adv && p.ref.HasReady()
	case OpAdvance:
		return p.adv
	case OpAppendDone:
		return len(p.rs.appendQ) > 0
	case OpApplyDone:
		return len(p.rs.applyQ) > 0
	case OpStep:
		return p.message(o.A) != nil
	case OpUnreach, OpSnapStatus:
		return s.State == raft.StateLeader
	case OpForget:
		return s.State == raft.StateFollower
	case OpTransfer:
		return s.Lead != 0
	case OpProposeConf:
		return o.A < len(p.sp.ConfMenu)
	}
	return true
}

func readyBytes(rd *raft.Ready) []byte {
	var b bytes.Buffer
	for _, m := range rd.Messages {
		b.Write(enc(m))
		b.WriteByte(0xff)
	}
	b.WriteByte(0xfe)
	for _, e := range rd.Entries {
		b.Write(enc(e))
	}
	b.WriteByte(0xfe)
	for _, e := range rd.CommittedEntries {
		b.Write(enc(e))
	}
	b.WriteByte(0xfe)
	if rd.HardState != nil {
		b.Write(enc(rd.HardState))
	}
	if rd.SoftState != nil {
		fmt.Fprintf(&b, "ss%d/%d", rd.SoftState.Lead, rd.SoftState.RaftState)
	}
	if rd.Snapshot != nil {
		b.Write(enc(rd.Snapshot))
	}
	for _, rs := range rd.ReadStates {
		fmt.Fprintf(&b, "rs%d/%s", rs.Index, rs.RequestCtx)
	}
	fmt.Fprintf(&b, "ms%v", rd.MustSync)
	return b.Bytes()
}

func describeReady(rd *raft.Ready) string {
	s := fmt.Sprintf("entries=%d committed=%d msgs=%d mustSync=%v", len(rd.Entries), len(rd.CommittedEntries), len(rd.Messages), rd.MustSync)
	if rd.HardState != nil {
		s += fmt.Sprintf(" hs=%d/%d/%d", rd.HardState.GetTerm(), rd.HardState.GetVote(), rd.HardState.GetCommit())
	}
	if rd.Snapshot != nil {
		s += fmt.Sprintf(" snap=%d", rd.Snapshot.GetMetadata().GetIndex())
	}
	for _, m := range rd.Messages {
		s += fmt.Sprintf(" %s->%d", m.GetType(), m.GetTo())
	}
	return s
}

// persist writes what a Ready (or MsgStorageAppend) asks for.
func persist(st *raft.MemoryStorage, snap *pb.Snapshot, ents []*pb.Entry, hs *pb.HardState) {
	if snap != nil && snap.GetMetadata().GetIndex() > 0 {
		_ = st.ApplySnapshot(snap)
	}
	if len(ents) > 0 {
		if err := st.Append(ents); err != nil {
			panic(err)
		}
	}
	if hs != nil {
		_ = st.SetHardState(hs)
	}
}

// applyEntries applies committed entries at one side; conf changes go through ApplyConfChange.
func (p *pair) applyEntries(node bool, ents []*pb.Entry, snapIdx uint64) (css [][]byte) {
	sd := &p.rs
	if node {
		sd = &p.ns
	}
	if snapIdx > sd.applied {
		sd.applied = snapIdx
	}
	for _, e := range ents {
		if e.GetType() != pb.EntryNormal {
			var cc pb.ConfChangeI
			if e.GetType() == pb.EntryConfChange {
				var c pb.ConfChange
				if err := proto.Unmarshal(e.GetData(), &c); err != nil {
					panic(err)
				}
				cc = &c
			} else {
				var c pb.ConfChangeV2
				if err := proto.Unmarshal(e.GetData(), &c); err != nil {
					panic(err)
				}
				cc = &c
			}
			var cs *pb.ConfState
			if node {
				got := make(chan *pb.ConfState, 1)
				go func() { got <- p.n.ApplyConfChange(cc) }()
				synctest.Wait()
				select {
				case cs = <-got:
				default:
					panic("harness: Node.ApplyConfChange did not return")
				}
			} else {
				cs = p.ref.ApplyConfChange(cc)
			}
			css = append(css, enc(cs))
			if !node {
				in := false
				for _, ids := range [][]uint64{cs.GetVoters(), cs.GetVotersOutgoing(), cs.GetLearners(), cs.GetLearnersNext()} {
					for _, id := range ids {
						in = in || id == self
					}
				}
				if !in {
					p.removed = true
				}
			}
			// the application keeps its snapshot current across membership changes
			if _, err := sd.st.CreateSnapshot(e.GetIndex(), cs, []byte("app")); err != nil && !errors.Is(err, raft.ErrSnapOutOfDate) {
				panic(err)
			}
		}
		sd.applied = e.GetIndex()
	}
	return css
}

func (p *pair) viol(prop, oracle, format string, a ...any) *Violation {
	return &Violation{Prop: prop, Oracle: oracle, Detail: fmt.Sprintf(format, a...)}
}

// compare checks that the state behind the Node equals the reference.
func (p *pair) compare(prop string, o Op) *Violation {
	if !bytes.Equal(p.nodeFP(), p.refFP()) {
		ns, rs := p.nrn.VerifState(), p.ref.VerifState()
		return p.viol(prop, "node-equals-rawnode", "after %s the state behind the Node differs from the reference RawNode: node{term %d vote %d lead %d state %s commit %d applying %d applied %d last %d msgs %d afterAppend %d stepsOnAdvance %d} reference{term %d vote %d lead %d state %s commit %d applying %d applied %d last %d msgs %d afterAppend %d stepsOnAdvance %d}",
			o, ns.Term, ns.Vote, ns.Lead, ns.State, ns.Committed, ns.Applying, ns.Applied, ns.LastIndex, len(ns.Msgs), len(ns.MsgsAfterAppend), len(ns.StepsOnAdvance),
			rs.Term, rs.Vote, rs.Lead, rs.State, rs.Committed, rs.Applying, rs.Applied, rs.LastIndex, len(rs.Msgs), len(rs.MsgsAfterAppend), len(rs.StepsOnAdvance))
	}
	if p.ns.out != p.rs.out {
		return p.viol(prop, "node-equals-rawnode", "after %s the Node has handed out something different from the reference RawNode", o)
	}
	if p.ns.applied != p.rs.applied {
		return p.viol(prop, "node-equals-rawnode", "after %s applied index %d vs reference %d", o, p.ns.applied, p.rs.applied)
	}
	return nil
}

// probeNoReady checks that the Node does not offer a Ready when the contract says it must not.
func (p *pair) probeNoReady(o Op) *Violation {
	if p.adv || !p.ref.HasReady() {
		select {
		case rd := <-p.n.Ready():
			why := "the reference has nothing ready"
			if p.adv {
				why = "the previous Ready has not been advanced"
			}
			return p.viol("C05", "ready-only-when-due", "after %s the Node offers a Ready (%s) although %s", o, describeReady(&rd), why)
		default:
		}
	}
	return nil
}

// sendAll records messages handed to the network; self-addressed ones are stepped back.
func (p *pair) release(node bool, ms []*pb.Message) {
	sd := &p.rs
	if node {
		sd = &p.ns
	}
	for _, m := range ms {
		if m.GetTo() == self {
			// self-addressed storage responses (async) are handed back at once
			if node {
				mm := m
				if err, blocked := p.call(func(ctx context.Context) error { return p.n.Step(ctx, mm) }); blocked || err != nil {
					sd.note([]byte("selfstep:" + errStr(err)))
				}
			} else {
				_ = p.ref.Step(m)
			}
			continue
		}
		sd.note(enc(m))
	}
}

// apply executes one operation on both sides and checks the oracles.
func (p *pair) apply(o Op) (v *Violation) {
	defer func() { p.cached = nil }()
	note := ""
	prop := "C05"
	switch o.K {
	case OpTick:
		p.n.Tick()
		synctest.Wait()
		if pan := guard(func() { p.ref.Tick() }); pan != nil {
			return p.viol("C14", "no-panic", "reference RawNode panicked in Tick: %v", pan)
		}
	case OpCampaign:
		err, blocked := p.call(func(ctx context.Context) error { return p.n.Campaign(ctx) })
		rerr := p.ref.Campaign()
		if blocked {
			return p.viol("C05", "node-accepts-input", "Campaign blocked although the node is running")
		}
		_ = err
		_ = rerr
	case OpPropose:
		prop = "C20"
		p.props++
		data := []byte(fmt.Sprintf("p%d", p.props))
		pre := p.nodeFP()
		// what would the reference do?
		trial := p.ref.VerifClone(p.rs.st.VerifClone())
		terr := trial.Propose(append([]byte(nil), data...))
		rs := p.state()
		err, blocked := p.call(func(ctx context.Context) error { return p.n.Propose(ctx, data) })
		p.settle()
		note = "-> " + errStr(err)
		if blocked {
			note += " (blocked; cancelled)"
		}
		if err == nil {
			if terr != nil {
				return p.viol("C20", "dropped-means-dropped", "Node.Propose returned nil where RawNode.Propose returns %v", terr)
			}
			_ = p.ref.Propose(append([]byte(nil), data...))
		} else {
			if !bytes.Equal(pre, p.nodeFP()) {
				return p.viol("C20", "dropped-means-dropped", "Node.Propose returned %v but the node's state changed", err)
			}
			member := false
			for _, pr := range rs.Progress {
				if pr.ID == self {
					member = true
				}
			}
			if terr == nil && member && !p.removed {
				return p.viol("C20", "accepted-when-leader-known", "Node.Propose returned %v (blocked=%v) although a leader is known (lead %d) and RawNode.Propose accepts", err, blocked, rs.Lead)
			}
			if blocked && !errors.Is(err, context.Canceled) {
				return p.viol("C20", "dropped-means-dropped", "a cancelled Propose returned %v", err)
			}
		}
	case OpProposeWait:
		prop = "C20"
		p.props++
		data := []byte(fmt.Sprintf("p%d", p.props))
		pre := p.nodeFP()
		ctx, cancel := context.WithCancel(context.Background())
		pd := &pending{data: data, done: make(chan error, 1), cancel: cancel}
		go func() { pd.done <- p.n.Propose(ctx, data) }()
		p.settle()
		select {
		case err := <-pd.done:
			cancel()
			note = "-> " + errStr(err)
			if v := p.proposalReturned(data, err); v != nil {
				return v
			}
		default:
			note = "(blocked; the client keeps waiting)"
			p.pend = pd
			if !bytes.Equal(pre, p.nodeFP()) {
				return p.viol("C20", "dropped-means-dropped", "a proposal the Node has not taken changed its state")
			}
		}
	case OpProposeConf:
		prop = "C10"
		var cc pb.ConfChangeV2
		if spec := p.sp.ConfMenu[o.A]; spec != "" {
			ccs, err := pb.ConfChangesFromString(spec)
			if err != nil {
				panic(err)
			}
			cc.Changes = ccs
		}
		pre := p.nodeFP()
		err, blocked := p.call(func(ctx context.Context) error { return p.n.ProposeConfChange(ctx, &cc) })
		p.settle()
		note = "-> " + errStr(err)
		if err == nil {
			_ = p.ref.ProposeConfChange(&cc)
		} else {
			if !bytes.Equal(pre, p.nodeFP()) {
				return p.viol("C10", "refused-conf-change-leaves-no-trace", "Node.ProposeConfChange returned %v (blocked=%v) but the node's state changed", err, blocked)
			}
		}
	case OpReadIndex:
		p.reads++
		rctx := []byte(fmt.Sprintf("r%d", p.reads))
		_, blocked := p.call(func(ctx context.Context) error { return p.n.ReadIndex(ctx, rctx) })
		if blocked {
			return p.viol("C05", "node-accepts-input", "ReadIndex blocked although the node is running")
		}
		p.ref.ReadIndex(rctx)
	case OpStep:
		p.steps++
		m := p.message(o.A)
		if m == nil {
			panic("harness: disabled message stepped")
		}
		m2 := proto.Clone(m).(*pb.Message)
		if m.GetType() == pb.MsgProp {
			// a forwarded proposal goes through the proposal channel, which the Node closes
			// while it knows no leader or after its own removal
			prop = "C20"
			pre := p.nodeFP()
			// node.run stamps every proposal that enters through it with its own id
			m2.From = new(uint64(self))
			trial := p.ref.VerifClone(p.rs.st.VerifClone())
			terr := trial.Step(proto.Clone(m2).(*pb.Message))
			rs := p.state()
			err, blocked := p.call(func(ctx context.Context) error { return p.n.Step(ctx, m) })
			p.settle()
			note = fmt.Sprintf("-> %s blocked=%v (RawNode.Step: %s)", errStr(err), blocked, errStr(terr))
			if !blocked {
				_ = p.ref.Step(m2)
				break
			}
			if !bytes.Equal(pre, p.nodeFP()) {
				return p.viol("C20", "dropped-means-dropped", "a forwarded proposal the Node did not take changed its state")
			}
			member := false
			for _, pr := range rs.Progress {
				if pr.ID == self {
					member = true
				}
			}
			if terr == nil && member && !p.removed {
				return p.viol("C20", "accepted-when-leader-known", "a forwarded proposal blocked although a leader is known (lead %d) and RawNode.Step accepts it", rs.Lead)
			}
			break
		}
		var rerr error
		if pan := guard(func() { rerr = p.ref.Step(m2) }); pan != nil {
			return p.viol("C14", "no-panic", "reference RawNode panicked stepping %s: %v", msgMenuNames[o.A], pan)
		}
		err, blocked := p.call(func(ctx context.Context) error { return p.n.Step(ctx, m) })
		note = fmt.Sprintf("-> %s (RawNode.Step: %s)", errStr(err), errStr(rerr))
		if blocked {
			return p.viol("C05", "node-accepts-input", "Step(%s) blocked although the node is running", msgMenuNames[o.A])
		}
	case OpReady:
		var nrd raft.Ready
		select {
		case nrd = <-p.n.Ready():
		default:
			return p.viol("C05", "ready-when-due", "the reference RawNode has a Ready but the Node does not offer one")
		}
		synctest.Wait()
		rrd := p.ref.Ready()
		if !bytes.Equal(readyBytes(&nrd), readyBytes(&rrd)) {
			return p.viol("C05", "node-equals-rawnode", "Ready from the Node {%s} differs from the reference {%s}", describeReady(&nrd), describeReady(&rrd))
		}
		note = describeReady(&rrd)
		p.nodeRd, p.refRd = nrd, rrd
		if v := p.processReady(true, &nrd); v != nil {
			return v
		}
		if v := p.processReady(false, &rrd); v != nil {
			return v
		}
		if !p.sp.Async {
			p.adv = true
		}
	case OpAdvance:
		done := make(chan struct{})
		go func() { p.n.Advance(); close(done) }()
		synctest.Wait()
		select {
		case <-done:
		default:
			return p.viol("C05", "advance-accepted", "Node.Advance blocked although a Ready is outstanding")
		}
		p.ref.Advance(p.refRd)
		p.adv = false
	case OpAppendDone:
		for _, node := range []bool{true, false} {
			sd := &p.rs
			if node {
				sd = &p.ns
			}
			m := sd.appendQ[0]
			sd.appendQ = sd.appendQ[1:]
			var hs *pb.HardState
			if m.GetTerm() != 0 || m.GetVote() != 0 || m.GetCommit() != 0 {
				hs = &pb.HardState{Term: new(m.GetTerm()), Vote: new(m.GetVote()), Commit: new(m.GetCommit())}
			}
			persist(sd.st, m.GetSnapshot(), m.GetEntries(), hs)
			if snap := m.GetSnapshot(); snap != nil && snap.GetMetadata().GetIndex() > sd.applied {
				sd.applied = snap.GetMetadata().GetIndex()
			}
			p.release(node, m.GetResponses())
		}
	case OpApplyDone:
		var ncs, rcs [][]byte
		for _, node := range []bool{true, false} {
			sd := &p.rs
			if node {
				sd = &p.ns
			}
			m := sd.applyQ[0]
			sd.applyQ = sd.applyQ[1:]
			cs := p.applyEntries(node, m.GetEntries(), 0)
			if node {
				ncs = cs
			} else {
				rcs = cs
			}
			p.release(node, m.GetResponses())
		}
		if v := cmpCS(ncs, rcs); v != nil {
			return v
		}
	case OpTransfer:
		s := p.state()
		done := make(chan struct{})
		go func() { p.n.TransferLeadership(context.Background(), s.Lead, uint64(o.A)); close(done) }()
		synctest.Wait()
		select {
		case <-done:
		default:
			return p.viol("C05", "node-accepts-input", "TransferLeadership blocked although the node is running")
		}
		p.ref.TransferLeader(uint64(o.A))
	case OpUnreach:
		done := make(chan struct{})
		go func() { p.n.ReportUnreachable(uint64(o.A)); close(done) }()
		synctest.Wait()
		<-done
		p.ref.ReportUnreachable(uint64(o.A))
	case OpSnapStatus:
		st := raft.SnapshotFinish
		if o.A == 1 {
			st = raft.SnapshotFailure
		}
		done := make(chan struct{})
		go func() { p.n.ReportSnapshot(2, st); close(done) }()
		synctest.Wait()
		<-done
		p.ref.ReportSnapshot(2, st)
	case OpForget:
		_, blocked := p.call(func(ctx context.Context) error { return p.n.ForgetLeader(ctx) })
		if blocked {
			return p.viol("C05", "node-accepts-input", "ForgetLeader blocked although the node is running")
		}
		_ = p.ref.ForgetLeader()
	case OpRestart:
		// crash: whatever is not in storage is gone; the state machine resumes from
		// min(its applied index, persisted commit) and never below the snapshot
		p.n.Stop()
		if p.pend != nil {
			synctest.Wait()
			select {
			case err := <-p.pend.done:
				if !errors.Is(err, raft.ErrStopped) {
					return p.viol("C20", "dropped-means-dropped", "a Propose that was waiting when the Node stopped returned %v", err)
				}
			default:
				return p.viol("C20", "dropped-means-dropped", "a Propose that was waiting when the Node stopped did not return")
			}
			p.pend.cancel()
			p.pend = nil
		}
		for _, sd := range []*side{&p.ns, &p.rs} {
			hs, snap, _ := sd.st.VerifDump()
			sidx := snap.GetMetadata().GetIndex()
			if hs.GetCommit() < sidx {
				fixed := &pb.HardState{Term: new(hs.GetTerm()), Vote: new(hs.GetVote()), Commit: new(sidx)}
				_ = sd.st.SetHardState(fixed)
				hs = fixed
			}
			sd.applied = max(sidx, min(sd.applied, hs.GetCommit()))
		}
		p.start()
	case OpStatus:
		got := make(chan raft.Status, 1)
		go func() { got <- p.n.Status() }()
		synctest.Wait()
		var ns raft.Status
		select {
		case ns = <-got:
		default:
			return p.viol("C05", "node-accepts-input", "Status blocked although the node is running")
		}
		rs := p.ref.Status()
		if !reflect.DeepEqual(ns, rs) {
			return p.viol("C05", "node-equals-rawnode", "Node.Status() = %s, reference %s", ns, rs)
		}
	}
	p.settle()
	p.trace = append(p.trace, fmt.Sprintf("%s %s", o, note))
	if p.pend != nil {
		// did the Node take the waiting proposal up after this operation?
		select {
		case err := <-p.pend.done:
			pd := p.pend
			p.pend = nil
			pd.cancel()
			p.trace = append(p.trace, fmt.Sprintf("  the waiting Propose(%s) returns %s", pd.data, errStr(err)))
			if v := p.proposalReturned(pd.data, err); v != nil {
				return v
			}
			prop = "C20"
			p.settle()
		default:
			// still waiting: only legal while the reference would refuse it or this node is not a member
			trial := p.ref.VerifClone(p.rs.st.VerifClone())
			if trial.Propose(append([]byte(nil), pd0(p)...)) == nil && p.isMember() && !p.removed {
				return p.viol("C20", "accepted-when-leader-known", "after %s a Propose is still blocked although a leader is known (lead %d) and RawNode.Propose accepts", o, p.state().Lead)
			}
		}
	}
	if v := p.compare(prop, o); v != nil {
		return v
	}
	return p.probeNoReady(o)
}

func pd0(p *pair) []byte { return p.pend.data }

func (p *pair) isMember() bool {
	for _, pr := range p.state().Progress {
		if pr.ID == self {
			return true
		}
	}
	return false
}

// proposalReturned brings the reference in line with a Propose call that returned err.
func (p *pair) proposalReturned(data []byte, err error) *Violation {
	rerr := p.ref.Propose(append([]byte(nil), data...))
	p.cached = nil
	if err == nil && rerr != nil {
		return p.viol("C20", "dropped-means-dropped", "Node.Propose returned nil where RawNode.Propose returns %v", rerr)
	}
	if err != nil && rerr == nil {
		return p.viol("C20", "accepted-when-leader-known", "Node.Propose returned %v where RawNode.Propose accepts the proposal", err)
	}
	return nil
}

func cmpCS(a, b [][]byte) *Violation {
	if len(a) != len(b) {
		return &Violation{Prop: "C10", Oracle: "confstate-equals-rawnode", Detail: fmt.Sprintf("Node applied %d conf changes, reference %d", len(a), len(b))}
	}
	for i := range a {
		if !bytes.Equal(a[i], b[i]) {
			var x, y pb.ConfState
			_ = proto.Unmarshal(a[i], &x)
			_ = proto.Unmarshal(b[i], &y)
			return &Violation{Prop: "C10", Oracle: "confstate-equals-rawnode", Detail: fmt.Sprintf("Node.ApplyConfChange returned %v, RawNode.ApplyConfChange %v", &x, &y)}
		}
	}
	return nil
}

// processReady does what a contract-respecting application does with a Ready.
func (p *pair) processReady(node bool, rd *raft.Ready) *Violation {
	sd := &p.rs
	if node {
		sd = &p.ns
	}
	if p.sp.Async {
		for _, m := range rd.Messages {
			switch m.GetTo() {
			case raft.LocalAppendThread:
				sd.appendQ = append(sd.appendQ, m)
			case raft.LocalApplyThread:
				sd.applyQ = append(sd.applyQ, m)
			default:
				sd.note(enc(m))
			}
		}
		return nil
	}
	persist(sd.st, rd.Snapshot, rd.Entries, rd.HardState)
	for _, m := range rd.Messages {
		sd.note(enc(m))
	}
	var snapIdx uint64
	if rd.Snapshot != nil {
		snapIdx = rd.Snapshot.GetMetadata().GetIndex()
	}
	cs := p.applyEntries(node, rd.CommittedEntries, snapIdx)
	for _, c := range cs {
		sd.note([]byte("cs"), c)
	}
	return nil
}

// ---- exploration ------------------------------------------------------------

type stateRec struct {
	parent  int32
	op      Op
	depth   int32
	enabled []Op
}

func (p *pair) enabledOps() []Op {
	var out []Op
	for _, o := range p.sp.Ops {
		if p.enabled(o) {
			out = append(out, o)
		}
	}
	return out
}

func pathOf(recs []stateRec, i int32) []Op {
	var rev []Op
	for i > 0 {
		rev = append(rev, recs[i].op)
		i = recs[i].parent
	}
	out := make([]Op, 0, len(rev))
	for k := len(rev) - 1; k >= 0; k-- {
		out = append(out, rev[k])
	}
	return out
}

// CurFile, if set, receives the operation list being executed, so that a crash of the
// process (a panic on the Node's own goroutine cannot be recovered here) can be attributed.
var CurFile *os.File
var curLen int

func noteCurrent(ops []Op) {
	if CurFile == nil {
		return
	}
	b, _ := json.Marshal(ops)
	for len(b) < curLen {
		b = append(b, ' ')
	}
	curLen = len(b)
	CurFile.WriteAt(b, 0)
}

// build replays prefix+ops on a fresh pair; it stops at the first violation.
func build(sp *Spec, ops []Op) (p *pair, v *Violation, ok bool) {
	noteCurrent(ops)
	p = newPair(sp)
	defer func() {
		if r := recover(); r != nil {
			if s, isStr := r.(string); isStr && len(s) >= 8 && s[:8] == "harness:" {
				p.stop()
				panic(r)
			}
			v, ok = &Violation{Prop: "C14", Oracle: "no-panic", Detail: fmt.Sprintf("panic: %v", r)}, true
		}
	}()
	for _, o := range sp.Prefix {
		if !p.enabled(o) {
			p.stop()
			panic(fmt.Sprintf("harness: prefix operation %s not enabled in %s", o, sp.Name))
		}
		if v := p.apply(o); v != nil {
			return p, v, true
		}
	}
	p.props, p.reads = 0, 0
	for _, o := range ops {
		if !p.enabled(o) {
			return p, nil, false
		}
		if v := p.apply(o); v != nil {
			return p, v, true
		}
	}
	return p, nil, true
}

// Explore runs a breadth-first search over operation sequences; must be called inside a synctest bubble.
func Explore(sp *Spec, expired func() bool) *Result {
	res := &Result{Scenario: sp.Name, Exhaustive: true, Outcomes: map[string]int64{}}
	seen := map[[32]byte]bool{}
	recs := []stateRec{{parent: -1}}
	root, v, _ := build(sp, nil)
	if v != nil {
		res.Found = append(res.Found, &Found{V: v, Spec: sp.Name, Trace: root.trace})
		root.stop()
		return res
	}
	seen[root.key()] = true
	recs[0].enabled = root.enabledOps()
	root.stop()
	res.States = 1
	foundKeys := map[string]bool{}
	for i := 0; i < len(recs); i++ {
		if int(recs[i].depth) >= sp.Depth {
			continue
		}
		if sp.MaxStates > 0 && len(recs) >= sp.MaxStates {
			res.Exhaustive = false
			res.Caps = append(res.Caps, fmt.Sprintf("state cap %d hit at depth %d", sp.MaxStates, recs[i].depth))
			break
		}
		if expired != nil && expired() {
			res.Exhaustive = false
			res.Caps = append(res.Caps, fmt.Sprintf("deadline hit; complete to depth %d", recs[i].depth))
			break
		}
		path := pathOf(recs, int32(i))
		for _, o := range recs[i].enabled {
			ops := append(append([]Op(nil), path...), o)
			p, v, ok := build(sp, ops)
			if !ok {
				p.stop()
				continue
			}
			res.Transitions++
			res.Replays++
			if v != nil {
				p.stop()
				k := v.Prop + "/" + v.Oracle
				if !foundKeys[k] {
					foundKeys[k] = true
					res.Found = append(res.Found, &Found{V: v, Spec: sp.Name, Ops: ops, Trace: append(p.trace, o.String()+"  <-- violation")})
				}
				continue
			}
			k := p.key()
			s := p.state()
			res.Outcomes[fmt.Sprintf("%s/term%d/commit%d/voters%d", s.State, s.Term, s.Committed, len(s.Voters[0]))]++
			if len(res.Samples) < 3 && int(recs[i].depth)+1 == sp.Depth && res.Transitions%97 == 0 {
				res.Samples = append(res.Samples, append([]string(nil), p.trace...))
			}
			en := p.enabledOps()
			p.stop()
			if !seen[k] {
				seen[k] = true
				recs = append(recs, stateRec{parent: int32(i), op: o, depth: recs[i].depth + 1, enabled: en})
				res.States++
				if res.States%64 == 0 {
					// the same operation list must lead to the same state again
					q, v2, _ := build(sp, ops)
					k2 := q.key()
					q.stop()
					res.Replays++
					if v2 != nil || k2 != k {
						res.HarnessErr = fmt.Sprintf("replaying %v did not reproduce its state", ops)
						return res
					}
				}
				if int(recs[i].depth)+1 > res.MaxDepth {
					res.MaxDepth = int(recs[i].depth) + 1
				}
			}
		}
	}
	return res
}

// Replay re-executes an operation list and returns the violation it meets, if any.
func Replay(sp *Spec, ops []Op) (*Violation, []string) {
	p, v, _ := build(sp, ops)
	defer p.stop()
	return v, p.trace
}
