package smallscope

import (
	"errors"
	"fmt"
	"math"

	"go.etcd.io/raft/v3"
	pb "go.etcd.io/raft/v3/raftpb"
)

// Storage-only part of C18: every sequence of MemoryStorage operations up to a length bound
// (Append as overwrite-from-index with every legal start and term, CreateSnapshot, Compact,
// ApplySnapshot), compared after every operation with an abstract list with a compacted prefix.

type sop struct {
	kind        string // "append" | "snap" | "compact" | "install"
	a, n, t, sz uint64
}

func (o sop) String() string {
	switch o.kind {
	case "append":
		return fmt.Sprintf("Append(%d..%d@t%d)", o.a, o.a+o.n-1, o.t)
	case "stale":
		return fmt.Sprintf("Append(stale batch %d..%d)", o.a, o.a+o.n-1)
	case "snap":
		return fmt.Sprintf("CreateSnapshot(%d)", o.a)
	case "compact":
		return fmt.Sprintf("Compact(%d)", o.a)
	}
	return fmt.Sprintf("ApplySnapshot(%d,t%d)", o.a, o.t)
}

type smodel struct {
	l        alist
	snapIdx  uint64
	snapTerm uint64
}

func storeApply(st *raft.MemoryStorage, m *smodel, o sop) string {
	switch o.kind {
	case "append":
		var ents []*pb.Entry
		for i := uint64(0); i < o.n; i++ {
			ents = append(ents, &pb.Entry{Index: new(o.a + i), Term: new(o.t), Data: make([]byte, 1+(o.a+i)%3)})
		}
		if err := st.Append(ents); err != nil {
			return fmt.Sprintf("%s: %v", o, err)
		}
		// overwrite from index: the log ends with the last appended entry
		m.l.ents = m.l.ents[:o.a-m.l.base-1]
		for _, e := range ents {
			m.l.ents = append(m.l.ents, aent{index: e.GetIndex(), term: e.GetTerm(), size: len(e.GetData())})
		}
	case "stale":
		// a stale or duplicated write that reaches back to (or below) the compaction point: the
		// compacted part is skipped, the rest is an overwrite from there
		var ents []*pb.Entry
		lastT, _ := m.l.term(m.l.last())
		for i := uint64(0); i < o.n; i++ {
			idx := o.a + i
			t := m.l.baseTerm
			if idx > m.l.base {
				if mt, ok := m.l.term(idx); ok {
					t = mt
				} else {
					t = lastT
				}
			}
			ents = append(ents, &pb.Entry{Index: new(idx), Term: new(t), Data: make([]byte, 1+idx%3)})
		}
		if err := st.Append(ents); err != nil {
			return fmt.Sprintf("%s: %v", o, err)
		}
		from := max(o.a, m.l.base+1)
		if o.a+o.n-1 >= from {
			m.l.ents = m.l.ents[:from-m.l.base-1]
			for _, e := range ents {
				if e.GetIndex() >= from {
					m.l.ents = append(m.l.ents, aent{index: e.GetIndex(), term: e.GetTerm(), size: len(e.GetData())})
				}
			}
		}
	case "snap":
		if _, err := st.CreateSnapshot(o.a, &pb.ConfState{Voters: []uint64{1}}, nil); err != nil {
			return fmt.Sprintf("%s: %v", o, err)
		}
		m.snapIdx = o.a
		m.snapTerm, _ = m.l.term(o.a)
	case "compact":
		t, _ := m.l.term(o.a)
		if err := st.Compact(o.a); err != nil {
			return fmt.Sprintf("%s: %v", o, err)
		}
		m.l = alist{base: o.a, baseTerm: t, ents: append([]aent(nil), m.l.ents[o.a-m.l.base:]...)}
	case "install":
		if err := st.ApplySnapshot(&pb.Snapshot{Metadata: &pb.SnapshotMetadata{Index: new(o.a), Term: new(o.t), ConfState: &pb.ConfState{Voters: []uint64{1}}}}); err != nil {
			return fmt.Sprintf("%s: %v", o, err)
		}
		m.l = alist{base: o.a, baseTerm: o.t}
		m.snapIdx, m.snapTerm = o.a, o.t
	}
	return ""
}

func storeEnabled(m *smodel) []sop {
	var out []sop
	last := m.l.last()
	lastTerm, _ := m.l.term(last)
	for start := m.l.base + 1; start <= last+1; start++ {
		pt, _ := m.l.term(start - 1)
		for t := pt; t <= min(pt+1, 3); t++ {
			if t == 0 {
				continue
			}
			for n := uint64(1); n <= 2; n++ {
				out = append(out, sop{kind: "append", a: start, n: n, t: t})
			}
		}
	}
	if m.l.base >= 2 {
		for start := max(2, m.l.base-1); start <= m.l.base; start++ {
			for n := uint64(1); n <= 3; n++ {
				if start+n-1 <= last+1 {
					out = append(out, sop{kind: "stale", a: start, n: n})
				}
			}
		}
	}
	for i := max(m.snapIdx+1, m.l.base); i <= last; i++ {
		out = append(out, sop{kind: "snap", a: i})
	}
	for i := m.l.base + 1; i <= last; i++ {
		out = append(out, sop{kind: "compact", a: i})
	}
	if last+1 > m.snapIdx {
		out = append(out, sop{kind: "install", a: last + 1, t: max(lastTerm, 1)}, sop{kind: "install", a: last + 2, t: min(lastTerm+1, 3)})
	}
	// a snapshot inside the stored log (same or different term at that index): ApplySnapshot
	// replaces the whole log, entries behind the snapshot index included
	for i := m.snapIdx + 1; i <= last; i++ {
		t, _ := m.l.term(i)
		out = append(out, sop{kind: "install", a: i, t: t})
		if t < 3 {
			out = append(out, sop{kind: "install", a: i, t: t + 1})
		}
	}
	return out
}

func storeCompare(st *raft.MemoryStorage, m *smodel) string {
	if fi, _ := st.FirstIndex(); fi != m.l.base+1 {
		return fmt.Sprintf("FirstIndex = %d, want %d", fi, m.l.base+1)
	}
	if li, _ := st.LastIndex(); li != m.l.last() {
		return fmt.Sprintf("LastIndex = %d, want %d", li, m.l.last())
	}
	if sn, _ := st.Snapshot(); sn.GetMetadata().GetIndex() != m.snapIdx || sn.GetMetadata().GetTerm() != m.snapTerm {
		return fmt.Sprintf("Snapshot = (%d,t%d), want (%d,t%d)", sn.GetMetadata().GetIndex(), sn.GetMetadata().GetTerm(), m.snapIdx, m.snapTerm)
	}
	for i := uint64(0); i <= m.l.last()+2; i++ {
		t, err := st.Term(i)
		wt, ok := m.l.term(i)
		switch {
		case i < m.l.base:
			if !errors.Is(err, raft.ErrCompacted) {
				return fmt.Sprintf("Term(%d) = (%d,%v), want ErrCompacted", i, t, err)
			}
		case !ok:
			if !errors.Is(err, raft.ErrUnavailable) {
				return fmt.Sprintf("Term(%d) = (%d,%v), want ErrUnavailable", i, t, err)
			}
		default:
			if err != nil || t != wt {
				return fmt.Sprintf("Term(%d) = (%d,%v), want %d", i, t, err, wt)
			}
		}
	}
	if len(m.l.ents) > 0 {
		got, err := st.Entries(m.l.base+1, m.l.last()+1, math.MaxUint64)
		if err != nil || !sameEnts(got, m.l.ents) {
			return fmt.Sprintf("Entries(%d,%d) = %s err=%v, want %v", m.l.base+1, m.l.last()+1, describe(got), err, m.l.ents)
		}
	}
	return ""
}

// runStorageOnly adds the storage-only exploration to the C18 report.
func runStorageOnly(r *Report, maxLen int) {
	type node struct{ ops []sop }
	build := func(ops []sop) (*raft.MemoryStorage, *smodel, string) {
		st := raft.NewMemoryStorage()
		st.ApplySnapshot(&pb.Snapshot{Metadata: &pb.SnapshotMetadata{Index: new(uint64(1)), Term: new(uint64(1)), ConfState: &pb.ConfState{Voters: []uint64{1}}}})
		m := &smodel{l: alist{base: 1, baseTerm: 1}, snapIdx: 1, snapTerm: 1}
		for _, o := range ops {
			if msg := storeApply(st, m, o); msg != "" {
				return st, m, msg
			}
		}
		return st, m, ""
	}
	seen := map[string]bool{}
	frontier := []node{{}}
	var states, transitions int64
	for depth := 0; depth < maxLen && len(frontier) > 0; depth++ {
		var next []node
		for _, nd := range frontier {
			_, m, _ := build(nd.ops)
			for _, o := range storeEnabled(m) {
				if m.l.last() >= 6 && o.kind == "append" && o.a+o.n-1 > 6 {
					continue // keep the index domain small
				}
				ops := append(append([]sop(nil), nd.ops...), o)
				st2, m2, msg := build(ops)
				transitions++
				if msg == "" {
					msg = storeCompare(st2, m2)
				}
				if msg != "" {
					if len(r.Violations) < 5 {
						r.Violations = append(r.Violations, fmt.Sprintf("storage only %v: %s", ops, msg))
					}
					continue
				}
				k := fmt.Sprintf("%v|%d|%d", m2.l, m2.snapIdx, m2.snapTerm)
				if !seen[k] {
					seen[k] = true
					states++
					next = append(next, node{ops})
				}
			}
		}
		frontier = next
	}
	r.States += states
	r.Transitions += transitions
	r.Evaluations += transitions
	r.Nontrivial += transitions
	r.Domains = append(r.Domains, fmt.Sprintf("storage only: all sequences of MemoryStorage.Append (overwrite from every legal index, 1-2 entries, same or next term) / CreateSnapshot / Compact / ApplySnapshot up to length %d over indexes <= 8, every first/last/term/entries/snapshot answer compared with an abstract list (%d states, %d transitions)", maxLen, states, transitions))
}
