// Package smallscope holds the component-level exhaustive explorers (C12, C13, C18).
package smallscope

import (
	"fmt"
	"math"
	"time"

	"go.etcd.io/raft/v3/quorum"
	"go.etcd.io/raft/v3/tracker"
	"verif/refmodel"
)

// Report is what a small-scope explorer returns.
type Report struct {
	Evaluations int64
	Nontrivial  int64
	States      int64
	Transitions int64
	Exhaustive  bool
	Caps        []string
	Samples     []any
	Violations  []string
	Domains     []string
	WallS       float64
}

type mapIdx map[uint64]quorum.Index

func (m mapIdx) AckedIndex(id uint64) (quorum.Index, bool) { v, ok := m[id]; return v, ok }

const missing = -1

// forEachVector enumerates all vectors of length n over vals.
func forEachVector(n int, vals []int, f func(v []int)) {
	v := make([]int, n)
	var rec func(i int)
	rec = func(i int) {
		if i == n {
			f(v)
			return
		}
		for _, x := range vals {
			v[i] = x
			rec(i + 1)
		}
	}
	rec(0)
}

func setOf(ids []uint64) quorum.MajorityConfig {
	m := quorum.MajorityConfig{}
	for _, id := range ids {
		m[id] = struct{}{}
	}
	return m
}

// RunQuorum is the C12 check: exhaustive comparison of the quorum package (and
// the tracker entry points built on it) with the reference arithmetic.
func RunQuorum(tier string) *Report {
	start := time.Now()
	r := &Report{Exhaustive: true}
	fail := func(format string, a ...any) {
		if len(r.Violations) < 10 {
			r.Violations = append(r.Violations, fmt.Sprintf(format, a...))
		}
	}
	idSets := func(n int) [][]uint64 {
		base := make([]uint64, n)
		for i := range base {
			base[i] = uint64(i + 1)
		}
		out := [][]uint64{base}
		if n > 0 && n <= 5 {
			// non-contiguous, unsorted-looking ids to exercise sorting
			weird := []uint64{1 << 63, 7, 3, math.MaxUint64 - 1, 1000003}
			out = append(out, weird[:n])
		}
		return out
	}
	checkMajority := func(ids []uint64, idxVals []int) {
		n := len(ids)
		cfg := setOf(ids)
		forEachVector(n, idxVals, func(v []int) {
			acked := map[uint64]uint64{}
			l := mapIdx{}
			nontriv := false
			for i, x := range v {
				if x != missing {
					acked[ids[i]] = uint64(x)
					l[ids[i]] = quorum.Index(x)
					if x > 0 {
						nontriv = true
					}
				}
			}
			got := uint64(cfg.CommittedIndex(l))
			want := refmodel.CommittedIndex(ids, acked)
			r.Evaluations++
			if nontriv {
				r.Nontrivial++
			}
			if got != want {
				fail("MajorityConfig%v.CommittedIndex(%v) = %d, reference %d", ids, acked, got, want)
			}
			if len(r.Samples) < 2 && n == 3 && nontriv && r.Evaluations%50 == 7 {
				r.Samples = append(r.Samples, map[string]any{"voters": ids, "acked": fmt.Sprint(acked), "committed": got})
			}
		})
		forEachVector(n, []int{missing, 0, 1}, func(v []int) {
			votes := map[uint64]bool{}
			for i, x := range v {
				if x != missing {
					votes[ids[i]] = x == 1
				}
			}
			got := int(cfg.VoteResult(votes))
			want := refmodel.VoteResult(ids, votes)
			r.Evaluations++
			if len(votes) > 0 {
				r.Nontrivial++
			}
			if got != want {
				fail("MajorityConfig%v.VoteResult(%v) = %d, reference %d", ids, votes, got, want)
			}
		})
	}
	for n := 0; n <= 7; n++ {
		vals := []int{missing, 0, 1, 2, 3}
		if n >= 6 {
			vals = []int{missing, 0, 1, 2}
		}
		for _, ids := range idSets(n) {
			checkMajority(ids, vals)
		}
	}
	r.Domains = append(r.Domains, "majority: voter sets of size 0..7 (contiguous and scattered ids), all acked-index vectors over {missing,0,1,2,3} (n<=5) / {missing,0,1,2} (n=6,7), all vote vectors")
	top := 11
	if tier == "thorough" {
		top = 13
	}
	for n := 8; n <= top; n++ {
		for _, ids := range idSets(n) {
			checkMajority(ids, []int{missing, 0, 1})
		}
	}
	r.Domains = append(r.Domains, fmt.Sprintf("majority beyond the on-stack fast path: sizes 8..%d, all vectors over {missing,0,1}", top))

	// extreme index values (the whole uint64 range, differences of 2^63 and more)
	{
		big := []uint64{0, 5, 1<<63 - 1, 1<<63 + 9, math.MaxUint64 - 1, math.MaxUint64}
		for n := 1; n <= 5; n++ {
			ids := idSets(n)[0]
			cfg := setOf(ids)
			pick := make([]int, n)
			var rec func(i int)
			rec = func(i int) {
				if i == n {
					acked := map[uint64]uint64{}
					l := mapIdx{}
					for k, x := range pick {
						if x > 0 {
							acked[ids[k]] = big[x-1]
							l[ids[k]] = quorum.Index(big[x-1])
						}
					}
					got, want := uint64(cfg.CommittedIndex(l)), refmodel.CommittedIndex(ids, acked)
					r.Evaluations++
					r.Nontrivial++
					if got != want {
						fail("MajorityConfig%v.CommittedIndex(%v) = %d, reference %d", ids, acked, got, want)
					}
					if n <= 3 {
						// the same vector against a joint configuration with the reversed other half
						jc := quorum.JointConfig{cfg, setOf(ids[:n-1])}
						if g, w2 := uint64(jc.CommittedIndex(l)), refmodel.JointCommittedIndex([2][]uint64{ids, ids[:n-1]}, acked); g != w2 {
							fail("JointConfig{%v,%v}.CommittedIndex(%v) = %d, reference %d", ids, ids[:n-1], acked, g, w2)
						}
					}
					return
				}
				for x := 0; x <= len(big); x++ {
					pick[i] = x
					rec(i + 1)
				}
			}
			rec(0)
		}
		r.Domains = append(r.Domains, "majority sizes 1..5 with every vector over {missing, 0, 5, 2^63-1, 2^63+9, 2^64-2, 2^64-1}")
	}
	// large voter sets (beyond any fixed-size scratch buffer): not all vectors, but the complete
	// "threshold" family – for every k and every rotation, k voters report the high value, the
	// others the low value or nothing – which contains every majority boundary
	for _, n := range []int{16, 17, 32, 33, 64, 65} {
		ids := make([]uint64, n)
		for i := range ids {
			ids[i] = uint64(i + 1)
		}
		cfg := setOf(ids)
		for k := 0; k <= n; k++ {
			for rot := 0; rot < n; rot++ {
				for _, low := range []int{missing, 0, 3} {
					acked := map[uint64]uint64{}
					l := mapIdx{}
					votes := map[uint64]bool{}
					for i := range ids {
						x := low
						if (i+rot)%n < k {
							x = 7
						}
						if x != missing {
							acked[ids[i]] = uint64(x)
							l[ids[i]] = quorum.Index(x)
							votes[ids[i]] = x == 7
						}
					}
					got, want := uint64(cfg.CommittedIndex(l)), refmodel.CommittedIndex(ids, acked)
					r.Evaluations++
					r.Nontrivial++
					if got != want {
						fail("MajorityConfig(1..%d).CommittedIndex with %d voters at 7 (rotation %d), the others at %d = %d, reference %d", n, k, rot, low, got, want)
					}
					if g, w2 := int(cfg.VoteResult(votes)), refmodel.VoteResult(ids, votes); g != w2 {
						fail("MajorityConfig(1..%d).VoteResult with %d yes (rotation %d) = %d, reference %d", n, k, rot, g, w2)
					}
				}
			}
		}
	}
	r.Domains = append(r.Domains, "majority with 16, 17, 32, 33, 64, 65 voters: the complete threshold family (every count k of high acknowledgements/yes votes, every rotation, the rest low, lower or missing)")
	// joint configurations: all ordered pairs of subsets of {1..u}
	u := 4
	idxVals := []int{missing, 0, 1, 2}
	if tier == "thorough" {
		u = 5
	}
	all := make([]uint64, u)
	for i := range all {
		all[i] = uint64(i + 1)
	}
	subsets := func() [][]uint64 {
		var out [][]uint64
		for mask := 0; mask < 1<<u; mask++ {
			var s []uint64
			for i := 0; i < u; i++ {
				if mask&(1<<i) != 0 {
					s = append(s, uint64(i+1))
				}
			}
			out = append(out, s)
		}
		return out
	}()
	for _, in := range subsets {
		for _, out := range subsets {
			jc := quorum.JointConfig{setOf(in), setOf(out)}
			if len(out) == 0 {
				jc[1] = nil
			}
			forEachVector(u, idxVals, func(v []int) {
				acked := map[uint64]uint64{}
				l := mapIdx{}
				for i, x := range v {
					if x != missing {
						acked[all[i]] = uint64(x)
						l[all[i]] = quorum.Index(x)
					}
				}
				got := uint64(jc.CommittedIndex(l))
				want := refmodel.JointCommittedIndex([2][]uint64{in, out}, acked)
				r.Evaluations++
				if want != 0 && want != math.MaxUint64 {
					r.Nontrivial++
				}
				if got != want {
					fail("JointConfig{%v,%v}.CommittedIndex(%v) = %d, reference %d", in, out, acked, got, want)
				}
				if len(r.Samples) < 4 && len(in) == 3 && len(out) == 2 && want == 1 {
					r.Samples = append(r.Samples, map[string]any{"incoming": in, "outgoing": out, "acked": fmt.Sprint(acked), "committed": got})
				}
			})
			forEachVector(u, []int{missing, 0, 1}, func(v []int) {
				votes := map[uint64]bool{}
				for i, x := range v {
					if x != missing {
						votes[all[i]] = x == 1
					}
				}
				got := int(jc.VoteResult(votes))
				want := refmodel.JointVoteResult([2][]uint64{in, out}, votes)
				r.Evaluations++
				if len(votes) > 0 {
					r.Nontrivial++
				}
				if got != want {
					fail("JointConfig{%v,%v}.VoteResult(%v) = %d, reference %d", in, out, votes, got, want)
				}
				// the tracker's entry points over the same arithmetic
				trk := tracker.MakeProgressTracker(4, 0)
				trk.Voters = jc
				for _, id := range all {
					trk.Progress[id] = &tracker.Progress{}
				}
				for id, y := range votes {
					trk.RecordVote(id, y)
				}
				if _, _, res := trk.TallyVotes(); int(res) != want {
					fail("ProgressTracker.TallyVotes with voters {%v,%v} votes %v = %d, reference %d", in, out, votes, res, want)
				}
				r.Evaluations++
			})
			// tracker.Committed over Match values
			forEachVector(u, []int{0, 1, 2}, func(v []int) {
				trk := tracker.MakeProgressTracker(4, 0)
				trk.Voters = jc
				acked := map[uint64]uint64{}
				for i, id := range all {
					// only members have a progress record
					if containsID(in, id) || containsID(out, id) {
						trk.Progress[id] = &tracker.Progress{Match: uint64(v[i])}
						acked[id] = uint64(v[i])
					}
				}
				got := trk.Committed()
				want := refmodel.JointCommittedIndex([2][]uint64{in, out}, acked)
				r.Evaluations++
				if got != want {
					fail("ProgressTracker.Committed voters {%v,%v} match %v = %d, reference %d", in, out, acked, got, want)
				}
			})
		}
	}
	// joint configurations with a large half (beyond the on-stack fast path), sparse acks
	{
		big8 := []uint64{1, 2, 3, 4, 5, 6, 7, 8}
		big9 := append(append([]uint64(nil), big8...), 9)
		smalls := [][]uint64{{11, 12, 13}, {2, 11, 12}, {11}, {1, 2, 3}, nil}
		var pairs [][2][]uint64
		for _, b := range [][]uint64{big8, big9} {
			for _, sm := range smalls {
				pairs = append(pairs, [2][]uint64{b, sm}, [2][]uint64{sm, b})
			}
		}
		pairs = append(pairs, [2][]uint64{big8, {3, 4, 5, 6, 7, 8, 9, 10}})
		if tier != "thorough" {
			pairs = pairs[:12]
		}
		for _, pr := range pairs {
			in, out := pr[0], pr[1]
			unionMap := map[uint64]bool{}
			var union []uint64
			for _, id := range append(append([]uint64(nil), in...), out...) {
				if !unionMap[id] {
					unionMap[id] = true
					union = append(union, id)
				}
			}
			jc := quorum.JointConfig{setOf(in), setOf(out)}
			if len(out) == 0 {
				jc[1] = nil
			}
			if len(in) == 0 {
				jc[0] = quorum.MajorityConfig{}
			}
			forEachVector(len(union), []int{missing, 0, 1}, func(v []int) {
				acked := map[uint64]uint64{}
				l := mapIdx{}
				votes := map[uint64]bool{}
				for i, x := range v {
					if x != missing {
						acked[union[i]] = uint64(x) * 5
						l[union[i]] = quorum.Index(x * 5)
						votes[union[i]] = x == 1
					}
				}
				got := uint64(jc.CommittedIndex(l))
				want := refmodel.JointCommittedIndex([2][]uint64{in, out}, acked)
				r.Evaluations++
				if want != 0 && want != math.MaxUint64 {
					r.Nontrivial++
				}
				if got != want {
					fail("JointConfig{%v,%v}.CommittedIndex(%v) = %d, reference %d", in, out, acked, got, want)
				}
				if g, w2 := int(jc.VoteResult(votes)), refmodel.JointVoteResult([2][]uint64{in, out}, votes); g != w2 {
					fail("JointConfig{%v,%v}.VoteResult(%v) = %d, reference %d", in, out, votes, g, w2)
				}
				r.Evaluations++
			})
		}
		r.Domains = append(r.Domains, fmt.Sprintf("joint with a large half: %d ordered pairs of an 8- or 9-voter set with small (overlapping, disjoint, empty) sets, all ack/vote vectors over {missing,0,5}", len(pairs)))
	}
	r.Domains = append(r.Domains, fmt.Sprintf("joint: all ordered pairs (incoming, outgoing) of subsets of {1..%d} incl. empty, all index vectors over {missing,0,1,2}, all vote vectors; tracker.Committed and TallyVotes over the same pairs", u))
	r.WallS = time.Since(start).Seconds()
	return r
}

func containsID(s []uint64, id uint64) bool {
	for _, x := range s {
		if x == id {
			return true
		}
	}
	return false
}
