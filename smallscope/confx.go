package smallscope

import (
	"fmt"
	"sort"
	"time"

	"google.golang.org/protobuf/proto"

	"go.etcd.io/raft/v3/confchange"
	"go.etcd.io/raft/v3/quorum"
	pb "go.etcd.io/raft/v3/raftpb"
	"go.etcd.io/raft/v3/tracker"
	"verif/refmodel"
)

type confState struct {
	cfg tracker.Config
	prs tracker.ProgressMap
	ref *refmodel.Conf
}

func sortedKeys(m map[uint64]struct{}) []uint64 {
	s := make([]uint64, 0, len(m))
	for k := range m {
		s = append(s, k)
	}
	sort.Slice(s, func(a, b int) bool { return s[a] < s[b] })
	return s
}

func cfgString(cfg tracker.Config, prs tracker.ProgressMap) string {
	ids := make([]uint64, 0, len(prs))
	for id := range prs {
		ids = append(ids, id)
	}
	sort.Slice(ids, func(a, b int) bool { return ids[a] < ids[b] })
	s := fmt.Sprintf("in=%v out=%v l=%v ln=%v al=%v prs=", sortedKeys(cfg.Voters[0]), sortedKeys(cfg.Voters[1]), sortedKeys(cfg.Learners), sortedKeys(cfg.LearnersNext), cfg.AutoLeave)
	for _, id := range ids {
		s += fmt.Sprintf("%d:%v,", id, prs[id].IsLearner)
	}
	return s
}

func refOfCfg(cfg tracker.Config) *refmodel.Conf {
	c := refmodel.NewConf(sortedKeys(cfg.Voters[0]), sortedKeys(cfg.Learners))
	for id := range cfg.Voters[1] {
		c.Outgoing[id] = true
	}
	for id := range cfg.LearnersNext {
		c.LearnersNext[id] = true
	}
	c.AutoLeave = cfg.AutoLeave
	return c
}

func toRef(ccs []*pb.ConfChangeSingle) []refmodel.Change {
	var out []refmodel.Change
	for _, c := range ccs {
		k := refmodel.Update
		switch c.GetType() {
		case pb.ConfChangeAddNode:
			k = refmodel.AddVoter
		case pb.ConfChangeAddLearnerNode:
			k = refmodel.AddLearner
		case pb.ConfChangeRemoveNode:
			k = refmodel.Remove
		}
		out = append(out, refmodel.Change{Kind: k, ID: c.GetNodeId()})
	}
	return out
}

// checkShape validates the structural clauses of C13 on an implementation result.
func checkShape(cfg tracker.Config, prs tracker.ProgressMap) string {
	members := map[uint64]bool{}
	for _, m := range []map[uint64]struct{}{cfg.Voters[0], cfg.Voters[1], cfg.Learners, cfg.LearnersNext} {
		for id := range m {
			members[id] = true
		}
	}
	for id := range members {
		if prs[id] == nil {
			return fmt.Sprintf("member %d has no progress record", id)
		}
	}
	for id, pr := range prs {
		if !members[id] {
			return fmt.Sprintf("non-member %d has a progress record", id)
		}
		_, isL := cfg.Learners[id]
		if pr.IsLearner != isL {
			return fmt.Sprintf("progress of %d has IsLearner=%v but learners=%v", id, pr.IsLearner, sortedKeys(cfg.Learners))
		}
	}
	for id := range cfg.Learners {
		if _, ok := cfg.Voters[0][id]; ok {
			return fmt.Sprintf("%d is learner and incoming voter", id)
		}
		if _, ok := cfg.Voters[1][id]; ok {
			return fmt.Sprintf("%d is learner and outgoing voter", id)
		}
	}
	for id := range cfg.LearnersNext {
		if _, ok := cfg.Voters[1][id]; !ok {
			return fmt.Sprintf("staged learner %d is not an outgoing voter", id)
		}
	}
	if len(cfg.Voters[0]) == 0 {
		return "no voter left"
	}
	return ""
}

// RunConfChange is the C13 check: the closure of configurations over a small id
// universe under every Simple / EnterJoint / LeaveJoint operation, compared with
// an independent reference model and with the invariants of the statement.
func RunConfChange(tier string, deadline time.Time) *Report {
	start := time.Now()
	r := &Report{Exhaustive: true}
	fail := func(format string, a ...any) {
		if len(r.Violations) < 10 {
			r.Violations = append(r.Violations, fmt.Sprintf(format, a...))
		}
	}
	universe, maxLen := 4, 2
	if tier == "thorough" {
		maxLen = 3
	}
	var singles []*pb.ConfChangeSingle
	for _, t := range []pb.ConfChangeType{pb.ConfChangeAddNode, pb.ConfChangeAddLearnerNode, pb.ConfChangeRemoveNode, pb.ConfChangeUpdateNode} {
		for id := 0; id <= universe; id++ {
			singles = append(singles, &pb.ConfChangeSingle{Type: t.Enum(), NodeId: new(uint64(id))})
		}
	}
	var seqs [][]*pb.ConfChangeSingle
	seqs = append(seqs, nil)
	var gen func(prefix []*pb.ConfChangeSingle, n int)
	gen = func(prefix []*pb.ConfChangeSingle, n int) {
		if n == 0 {
			return
		}
		for _, s := range singles {
			p := append(append([]*pb.ConfChangeSingle(nil), prefix...), s)
			seqs = append(seqs, p)
			gen(p, n-1)
		}
	}
	gen(nil, maxLen)

	mk := func(st *confState) confchange.Changer {
		trk := tracker.MakeProgressTracker(4, 0)
		trk.Config = st.cfg
		trk.Progress = st.prs
		return confchange.Changer{Tracker: trk, LastIndex: 5}
	}
	seen := map[string]bool{}
	var queue []*confState
	push := func(cfg tracker.Config, prs tracker.ProgressMap, ref *refmodel.Conf) {
		k := cfgString(cfg, prs)
		if seen[k] {
			return
		}
		seen[k] = true
		queue = append(queue, &confState{cfg: cfg, prs: prs, ref: ref})
		r.States++
	}
	for v := 1; v <= universe; v++ {
		trk := tracker.MakeProgressTracker(4, 0)
		cfg, prs, err := confchange.Changer{Tracker: trk, LastIndex: 5}.Simple(&pb.ConfChangeSingle{Type: pb.ConfChangeAddNode.Enum(), NodeId: new(uint64(v))})
		if err != nil {
			fail("cannot build initial configuration with voter %d: %v", v, err)
			continue
		}
		push(cfg, prs, refmodel.NewConf([]uint64{uint64(v)}, nil))
	}
	{
		// the empty configuration a tracker starts with (bootstrap): its voter set is allocated but empty
		trk := tracker.MakeProgressTracker(4, 0)
		push(trk.Config, trk.Progress, refmodel.NewConf(nil, nil))
	}
	type op struct {
		kind      int // 0 simple, 1 enter joint, 2 leave joint
		autoLeave bool
		ccs       []*pb.ConfChangeSingle
	}
	var ops []op
	for _, s := range seqs {
		ops = append(ops, op{kind: 0, ccs: s}, op{kind: 1, autoLeave: false, ccs: s}, op{kind: 1, autoLeave: true, ccs: s})
	}
	ops = append(ops, op{kind: 2})
	for qi := 0; qi < len(queue); qi++ {
		if !deadline.IsZero() && qi%16 == 0 && time.Now().After(deadline) {
			r.Exhaustive = false
			r.Caps = append(r.Caps, fmt.Sprintf("deadline reached after expanding %d of %d configurations", qi, len(queue)))
			break
		}
		st := queue[qi]
		before := cfgString(st.cfg, st.prs)
		for _, o := range ops {
			chg := mk(st)
			var cfg tracker.Config
			var prs tracker.ProgressMap
			var err error
			var ref *refmodel.Conf
			var rerr error
			switch o.kind {
			case 0:
				cfg, prs, err = chg.Simple(o.ccs...)
				ref, rerr = st.ref.Simple(toRef(o.ccs))
			case 1:
				cfg, prs, err = chg.EnterJoint(o.autoLeave, o.ccs...)
				ref, rerr = st.ref.EnterJoint(o.autoLeave, toRef(o.ccs))
			case 2:
				cfg, prs, err = chg.LeaveJoint()
				ref, rerr = st.ref.LeaveJoint()
			}
			r.Transitions++
			r.Evaluations++
			desc := func() string {
				return fmt.Sprintf("op kind=%d autoLeave=%v changes=[%s] on {%s}", o.kind, o.autoLeave, confchange.Describe(o.ccs...), before)
			}
			if after := cfgString(st.cfg, st.prs); after != before {
				fail("%s modified its input: now {%s}", desc(), after)
			}
			if (err == nil) != (rerr == nil) {
				fail("%s: implementation error=%v, reference error=%v", desc(), err, rerr)
				continue
			}
			if err != nil {
				continue
			}
			r.Nontrivial++
			if msg := checkShape(cfg, prs); msg != "" {
				fail("%s yields {%s}: %s", desc(), cfgString(cfg, prs), msg)
			}
			if e := ref.CheckInvariants(); e != nil {
				fail("%s: reference result %s violates %v", desc(), ref, e)
			}
			if got := refOfCfg(cfg); !got.Equal(ref) {
				fail("%s yields %s, reference %s", desc(), got, ref)
			}
			if o.kind == 0 {
				d := 0
				for id := range st.cfg.Voters[0] {
					if _, ok := cfg.Voters[0][id]; !ok {
						d++
					}
				}
				for id := range cfg.Voters[0] {
					if _, ok := st.cfg.Voters[0][id]; !ok {
						d++
					}
				}
				if d > 1 {
					fail("%s changed %d voters in a simple change", desc(), d)
				}
			}
			// round trip through ConfState
			trk := tracker.MakeProgressTracker(4, 0)
			trk.Config, trk.Progress = cfg, prs
			cs := trk.ConfState()
			{
				// the ConfState handed out is a value: later changes of the tracker must not reach it
				before := proto.Clone(cs).(*pb.ConfState)
				probe := tracker.MakeProgressTracker(4, 0)
				probe.Config, probe.Progress = cfg.Clone(), prs
				pcs := probe.ConfState()
				was := proto.Clone(pcs).(*pb.ConfState)
				probe.Config.AutoLeave = !probe.Config.AutoLeave
				probe.Config.Voters[0][99] = struct{}{}
				if probe.Config.Learners == nil {
					probe.Config.Learners = map[uint64]struct{}{}
				}
				probe.Config.Learners[98] = struct{}{}
				if !proto.Equal(pcs, was) {
					fail("%s: the ConfState of {%s} changed when the tracker was modified afterwards: %v, was %v", desc(), cfgString(cfg, prs), pcs, was)
				}
				_ = before
			}
			rcfg, rprs, rerr2 := confchange.Restore(confchange.Changer{Tracker: tracker.MakeProgressTracker(4, 0), LastIndex: 5}, cs)
			if rerr2 != nil {
				fail("%s: Restore(%v) failed: %v", desc(), cs, rerr2)
			} else {
				if a, b := cfgString(rcfg, rprs), cfgString(cfg, prs); a != b {
					fail("%s: Restore(ConfState) = {%s}, original {%s}", desc(), a, b)
				}
				t2 := tracker.MakeProgressTracker(4, 0)
				t2.Config, t2.Progress = rcfg, rprs
				if e := cs.Equivalent(t2.ConfState()); e != nil {
					fail("%s: ConfState does not round-trip: %v", desc(), e)
				}
				cs2 := proto.Clone(cs).(*pb.ConfState)
				if e := cs.Equivalent(cs2); e != nil {
					fail("ConfState not equivalent to its own clone: %v", e)
				}
			}
			if len(r.Samples) < 3 && o.kind == 1 && len(o.ccs) == 2 && len(cfg.LearnersNext) > 0 {
				r.Samples = append(r.Samples, map[string]any{"from": before, "op": fmt.Sprintf("EnterJoint(autoLeave=%v, %s)", o.autoLeave, confchange.Describe(o.ccs...)), "to": cfgString(cfg, prs)})
			}
			push(cfg, prs, ref)
		}
	}
	r.Domains = append(r.Domains, fmt.Sprintf("closure of configurations over ids 1..%d from the empty (bootstrap) configuration and every single-voter configuration under Simple/EnterJoint(autoLeave t,f)/LeaveJoint with every change sequence of length <= %d over {add,learner,remove,update} x {0..%d}", universe, maxLen, universe))
	if len(r.Samples) == 0 && len(queue) > 0 {
		r.Samples = append(r.Samples, cfgString(queue[len(queue)-1].cfg, queue[len(queue)-1].prs))
	}
	r.WallS = time.Since(start).Seconds()
	return r
}

var _ = quorum.MajorityConfig{}
