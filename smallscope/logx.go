package smallscope

import "time"

// RunLogStore is the C18 check (see logx_impl.go).
func RunLogStore(tier string, deadline time.Time) *Report { return runLogStore(tier, deadline) }
