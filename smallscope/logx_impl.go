package smallscope

import (
	"crypto/sha256"
	"errors"
	"fmt"
	"google.golang.org/protobuf/proto"
	"math"
	"sort"
	"sync"
	"time"

	"go.etcd.io/raft/v3"
	pb "go.etcd.io/raft/v3/raftpb"
)

// ---------------------------------------------------------------- abstract model

type aent struct {
	index, term uint64
	size        int // payload size
}

func (e aent) pb() *pb.Entry {
	data := make([]byte, e.size)
	for i := range data {
		data[i] = byte('a' + (e.index*7+e.term)%26)
	}
	return &pb.Entry{Index: new(e.index), Term: new(e.term), Data: data}
}

// alist is a list of entries with a compacted prefix.
type alist struct {
	base, baseTerm uint64
	ents           []aent
}

func (l *alist) last() uint64 { return l.base + uint64(len(l.ents)) }
func (l *alist) term(i uint64) (uint64, bool) {
	if i == l.base {
		return l.baseTerm, true
	}
	if i < l.base || i > l.last() {
		return 0, false
	}
	return l.ents[i-l.base-1].term, true
}
func (l *alist) clone() alist {
	return alist{l.base, l.baseTerm, append([]aent(nil), l.ents...)}
}

type batch struct {
	raw      []*pb.Entry // the slice the log handed out (not copied: the application writes what it was given)
	ents     []aent
	snapIdx  uint64
	snapTerm uint64
	ackIdx   uint64
	ackTerm  uint64
	epoch    int
}

// model is the abstract state: the logical log, the storage, and the persistence pipeline.
type model struct {
	log       alist // logical log (what the node's combined view must look like)
	committed uint64
	applied   uint64
	acked     uint64 // highest index known stable to the log (unstable.offset-1)
	pendSnap  uint64 // index of a restored snapshot not yet acknowledged (0 = none)
	sto       alist  // stable storage
	snapIdx   uint64
	snapTerm  uint64
	pipe      []batch // accepted, not yet persisted
	acks      []batch // persisted, not yet acknowledged
	inProg    uint64  // highest index handed out by Ready (unstable.offsetInProgress-1)
	term      uint64
	epoch     int
	ledTerm   uint64 // term in which this node appended as leader (no other leader exists in it)
	folTerm   uint64 // term in which this node accepted entries from another leader
	folD      uint64 // that leader's log equals the local log up to folD and holds its own term's entries after it
}

func newModel() *model {
	return &model{log: alist{base: 1, baseTerm: 1}, committed: 1, applied: 1, acked: 1, inProg: 1, sto: alist{base: 1, baseTerm: 1}, snapIdx: 1, snapTerm: 1, term: 1}
}

// ---------------------------------------------------------------- operations

type lop struct {
	kind string
	a, b uint64
	c    uint64
	d    uint64
	big  bool
}

func (o lop) String() string {
	switch o.kind {
	case "append":
		return fmt.Sprintf("append(t%d,big=%v)", o.a, o.big)
	case "follow":
		return fmt.Sprintf("follow(leader t%d diverging after %d: prev=%d, %d entries)", o.b, o.d, o.a, o.c)
	case "restore":
		return fmt.Sprintf("restore(%d,t%d)", o.a, o.b)
	case "commit", "compact":
		return fmt.Sprintf("%s(%d)", o.kind, o.a)
	case "apply":
		return fmt.Sprintf("apply(allowUnstable=%v)", o.a == 1)
	}
	return o.kind
}

// heldSlice is a slice of entries the storage or the log handed out earlier (as it would for
// a MsgApp that is built but not yet sent) together with what it held at that moment.
type heldSlice struct {
	what string
	ents []*pb.Entry
	want []aent
}

type sut struct {
	held  []heldSlice
	st    *raft.MemoryStorage
	l     *raft.VerifLog
	m     *model
	async bool // apply only entries acknowledged stable (AsyncStorageWrites)
}

func newSUT(maxApply uint64) *sut {
	st := raft.NewMemoryStorage()
	st.ApplySnapshot(&pb.Snapshot{Metadata: &pb.SnapshotMetadata{Index: new(uint64(1)), Term: new(uint64(1)), ConfState: &pb.ConfState{Voters: []uint64{1}}}})
	return &sut{st: st, l: raft.NewVerifLog(st, maxApply), m: newModel()}
}

func entSize(n int, big bool) int {
	if big {
		return 40
	}
	return 1 + n%2
}

// enabled lists the operations available in the model state.
func (s *sut) enabled() []lop {
	m := s.m
	var out []lop
	last := m.log.last()
	lastTerm, _ := m.log.term(last)
	// leader appends
	for _, t := range []uint64{m.term, m.term + 1} {
		if t >= lastTerm && t <= 3 && t != m.folTerm {
			out = append(out, lop{kind: "append", a: t})
			if last%2 == 0 {
				out = append(out, lop{kind: "append", a: t, big: true})
			}
		}
	}
	// follower appends from the leader of term t. One leader per term, one log per
	// leader: its log equals the local log up to a divergence point d (>= commit,
	// chosen when the term is first seen) and holds entries of term t after it.
	for _, t := range []uint64{m.term, m.term + 1} {
		if t > 3 || t == m.ledTerm || t < lastTerm {
			continue
		}
		var ds []uint64
		if t == m.folTerm {
			ds = []uint64{m.folD}
		} else {
			for d := uint64(0); d <= 2; d++ {
				if last >= d && last-d >= m.committed {
					if dt, ok := m.log.term(last - d); ok && dt <= t {
						ds = append(ds, last-d)
					}
				}
			}
		}
		for _, d := range ds {
			prevs := []uint64{d}
			if d > m.committed {
				prevs = append(prevs, d-1)
			}
			if lt, _ := m.log.term(last); last > d && lt == t {
				prevs = append(prevs, last) // local log already holds this leader's entries up to last
			}
			prevs = append(prevs, last+1) // a probe beyond the local log: must be rejected
			for _, prev := range prevs {
				if prev < m.committed {
					continue // raft answers such appends from its commit index without consulting the log
				}
				for n := uint64(1); n <= 2; n++ {
					out = append(out, lop{kind: "follow", a: prev, b: t, c: n, d: d})
				}
			}
		}
	}
	if m.log.last() > m.inProg || (m.pendSnap != 0 && !s.snapInProgress()) {
		out = append(out, lop{kind: "ready"})
	}
	if len(m.pipe) > 0 {
		out = append(out, lop{kind: "persist"})
	}
	if len(m.acks) > 0 {
		out = append(out, lop{kind: "ack"})
		a := m.acks[0]
		if a.ackIdx != 0 && a.epoch != m.epoch {
			if t, ok := m.log.term(a.ackIdx); !ok || t != a.ackTerm {
				out = append(out, lop{kind: "ack-unguarded"})
			}
		}
	}
	if m.pendSnap == 0 && m.term <= 3 && m.term != m.ledTerm {
		for _, i := range []uint64{m.committed + 1, last + 1} {
			// a snapshot of the current term's leader is a prefix of that leader's log: if this node
			// already follows that leader (whose log equals the local one up to folD), the snapshot
			// cannot carry the leader's term at an index at or below folD
			if m.folTerm == m.term && i <= m.folD {
				continue
			}
			if t, ok := m.log.term(i); !ok || t != m.term {
				out = append(out, lop{kind: "restore", a: i, b: m.term})
			}
		}
	}
	// the commit index only moves over entries that match the current leader's log
	climit := m.committed
	if m.ledTerm == m.term {
		climit = last
	} else if m.folTerm == m.term {
		climit = max(climit, min(m.folD, last))
		for i := m.folD + 1; i <= last; i++ {
			if t, _ := m.log.term(i); t != m.folTerm {
				break
			}
			climit = max(climit, i)
		}
	}
	if m.committed < climit && m.pendSnap == 0 {
		out = append(out, lop{kind: "commit", a: m.committed + 1})
		if climit > m.committed+1 {
			out = append(out, lop{kind: "commit", a: climit})
		}
	}
	if m.applied < m.committed && m.pendSnap == 0 {
		if s.async {
			out = append(out, lop{kind: "apply", a: 0})
		} else {
			out = append(out, lop{kind: "apply", a: 1})
		}
	}
	// compaction only below what is applied and acknowledged stable
	ci := min(m.applied, m.acked, m.sto.last())
	if ci > m.sto.base {
		out = append(out, lop{kind: "compact", a: ci})
		if ci-1 > m.sto.base {
			out = append(out, lop{kind: "compact", a: ci - 1})
		}
	}
	return out
}

func (s *sut) snapInProgress() bool {
	_, _, _, snap, inprog := s.l.Unstable()
	return snap != nil && inprog
}

// apply executes op on both the implementation and the model; it returns an error
// string if the implementation misbehaves in the operation itself.
func (s *sut) apply(o lop) (res string) {
	defer func() {
		if r := recover(); r != nil {
			res = fmt.Sprintf("panic in %v: %v", o, r)
		}
	}()
	m := s.m
	bump := func(t uint64) {
		if t > m.term {
			m.term = t
			m.epoch++
		}
	}
	switch o.kind {
	case "append":
		bump(o.a)
		m.ledTerm = o.a
		e := aent{index: m.log.last() + 1, term: o.a, size: entSize(int(m.log.last()), o.big)}
		m.log.ents = append(m.log.ents, e)
		if got := s.l.Append(e.pb()); got != e.index {
			return fmt.Sprintf("append returned last index %d, want %d", got, e.index)
		}
	case "follow":
		prev, t, n, d := o.a, o.b, o.c, o.d
		// the leader's log: local entries up to d, its own term after
		lterm := func(i uint64) uint64 {
			if i <= d {
				x, _ := m.log.term(i)
				return x
			}
			return t
		}
		if prev > m.log.last() {
			// probe beyond the local log
			if _, ok := s.l.MaybeAppend(t, prev, lterm(prev), []*pb.Entry{(aent{index: prev + 1, term: t, size: 1}).pb()}, m.committed); ok {
				return fmt.Sprintf("maybeAppend anchored at %d beyond the last index %d was accepted", prev, m.log.last())
			}
			bump(t)
			m.folTerm, m.folD = t, d
			return ""
		}
		bump(t)
		m.folTerm, m.folD = t, d
		var ents []aent
		var pents []*pb.Entry
		for k := uint64(1); k <= n; k++ {
			i := prev + k
			e := aent{index: i, term: lterm(i), size: entSize(int(i-1), false)}
			if i <= d {
				e = m.log.ents[i-m.log.base-1]
			} else if et, ok := m.log.term(i); ok && et == t {
				e = m.log.ents[i-m.log.base-1] // already replicated from this leader
			}
			ents = append(ents, e)
			pents = append(pents, e.pb())
		}
		commit := min(m.committed+1, prev+n)
		lastnew, ok := s.l.MaybeAppend(t, prev, lterm(prev), pents, commit)
		if !ok || lastnew != prev+n {
			return fmt.Sprintf("maybeAppend(prev=%d/t%d, %d entries) = (%d,%v)", prev, lterm(prev), n, lastnew, ok)
		}
		for _, e := range ents {
			if et, ok := m.log.term(e.index); ok && et == e.term {
				continue
			}
			// conflict or extension: truncate from here and append
			m.log.ents = append(m.log.ents[:e.index-m.log.base-1:e.index-m.log.base-1], e)
			if m.inProg >= e.index {
				m.inProg = e.index - 1
			}
			if m.acked >= e.index {
				m.acked = e.index - 1
			}
		}
		if commit > m.committed {
			m.committed = commit
		}
	case "ready":
		ents := s.l.NextUnstableEnts()
		snap := s.l.NextUnstableSnapshot()
		_, _, uents, _, _ := s.l.Unstable()
		s.l.AcceptUnstable()
		b := batch{epoch: m.epoch, raw: ents}
		for _, e := range ents {
			b.ents = append(b.ents, aent{index: e.GetIndex(), term: e.GetTerm(), size: len(e.GetData())})
		}
		// the hand-out must be exactly the not-yet-handed-out tail of the logical log
		want := m.log.ents[m.inProg-m.log.base:]
		if len(want) != len(b.ents) {
			return fmt.Sprintf("Ready handed out %d entries, want %d (after %d)", len(b.ents), len(want), m.inProg)
		}
		for k := range want {
			if want[k] != b.ents[k] {
				return fmt.Sprintf("Ready handed out %+v at position %d, want %+v", b.ents[k], k, want[k])
			}
		}
		if snap != nil {
			b.snapIdx, b.snapTerm = snap.GetMetadata().GetIndex(), snap.GetMetadata().GetTerm()
			if b.snapIdx != m.pendSnap {
				return fmt.Sprintf("Ready handed out snapshot %d, want %d", b.snapIdx, m.pendSnap)
			}
		}
		if len(uents) > 0 {
			b.ackIdx = m.log.last()
			b.ackTerm, _ = m.log.term(b.ackIdx)
		}
		m.inProg = m.log.last()
		m.pipe = append(m.pipe, b)
	case "persist":
		b := m.pipe[0]
		m.pipe = m.pipe[1:]
		if b.snapIdx != 0 {
			err := s.st.ApplySnapshot(&pb.Snapshot{Metadata: &pb.SnapshotMetadata{Index: new(b.snapIdx), Term: new(b.snapTerm), ConfState: &pb.ConfState{Voters: []uint64{1}}}})
			if m.snapIdx != 0 && m.snapIdx >= b.snapIdx {
				if !errors.Is(err, raft.ErrSnapOutOfDate) {
					return fmt.Sprintf("ApplySnapshot(%d) over snapshot %d: err=%v, want ErrSnapOutOfDate", b.snapIdx, m.snapIdx, err)
				}
			} else {
				if err != nil {
					return fmt.Sprintf("ApplySnapshot(%d): %v", b.snapIdx, err)
				}
				m.snapIdx, m.snapTerm = b.snapIdx, b.snapTerm
				m.sto = alist{base: b.snapIdx, baseTerm: b.snapTerm}
			}
		}
		if len(b.ents) > 0 {
			// write exactly the slice that was handed out at Ready time; if the log has
			// scribbled over it since (aliasing), storage ends up different from the model
			pents := b.raw
			for k, e := range pents {
				if k < len(b.ents) && (e.GetIndex() != b.ents[k].index || e.GetTerm() != b.ents[k].term || len(e.GetData()) != b.ents[k].size) {
					return fmt.Sprintf("the batch handed out by Ready changed before it was written: position %d now holds (%d,t%d), was %+v", k, e.GetIndex(), e.GetTerm(), b.ents[k])
				}
			}
			if err := s.st.Append(pents); err != nil {
				return fmt.Sprintf("storage.Append: %v", err)
			}
			ents := b.ents
			first := m.sto.base + 1
			if ents[len(ents)-1].index >= first {
				if ents[0].index < first {
					ents = ents[first-ents[0].index:]
				}
				keep := ents[0].index - m.sto.base - 1
				if keep > uint64(len(m.sto.ents)) {
					return fmt.Sprintf("harness: storage gap (append at %d, storage ends at %d)", ents[0].index, m.sto.last())
				}
				m.sto.ents = append(m.sto.ents[:keep:keep], ents...)
			}
		}
		m.acks = append(m.acks, b)
	case "ack", "ack-unguarded":
		b := m.acks[0]
		m.acks = m.acks[1:]
		if b.ackIdx != 0 && (b.epoch == m.epoch || o.kind == "ack-unguarded") {
			s.l.StableTo(b.ackIdx, b.ackTerm)
			if t, ok := m.log.term(b.ackIdx); ok && t == b.ackTerm && b.ackIdx > m.acked && b.ackIdx > m.log.base {
				m.acked = b.ackIdx
				if m.inProg < m.acked {
					m.inProg = m.acked
				}
			}
		}
		if b.snapIdx != 0 {
			// raft.appliedSnap: the snapshot is stable and applied
			s.l.StableSnapTo(b.snapIdx)
			if b.snapIdx > m.applied && b.snapIdx <= m.committed {
				s.l.AppliedTo(b.snapIdx, 0)
				m.applied = b.snapIdx
			}
			if m.pendSnap == b.snapIdx {
				m.pendSnap = 0
			}
		}
	case "restore":
		bump(o.b)
		m.folTerm, m.folD = o.b, o.a
		s.l.Restore(&pb.Snapshot{Metadata: &pb.SnapshotMetadata{Index: new(o.a), Term: new(o.b), ConfState: &pb.ConfState{Voters: []uint64{1}}}})
		m.log = alist{base: o.a, baseTerm: o.b}
		m.committed = o.a
		m.pendSnap = o.a
		m.acked, m.inProg = o.a, o.a
	case "commit":
		s.l.CommitTo(o.a)
		m.committed = o.a
	case "apply":
		allowUnstable := o.a == 1
		ents := s.l.NextCommittedEnts(allowUnstable)
		hi := m.committed
		if !allowUnstable {
			hi = min(hi, m.acked)
		}
		if m.pendSnap != 0 || hi < m.applied {
			hi = m.applied
		}
		if uint64(len(ents)) != hi-m.applied {
			return fmt.Sprintf("nextCommittedEnts(%v) returned %d entries, want %d (applied %d, committed %d, stable %d)", allowUnstable, len(ents), hi-m.applied, m.applied, m.committed, m.acked)
		}
		for k, e := range ents {
			w := m.log.ents[m.applied+uint64(k)-m.log.base]
			if e.GetIndex() != w.index || e.GetTerm() != w.term || len(e.GetData()) != w.size {
				return fmt.Sprintf("nextCommittedEnts returned (%d,t%d) at position %d, want %+v", e.GetIndex(), e.GetTerm(), k, w)
			}
		}
		if len(ents) > 0 {
			sz := raft.VerifEntsSize(ents)
			s.l.AcceptApplying(hi, sz, allowUnstable)
			s.l.AppliedTo(hi, sz)
			m.applied = hi
		}
	case "compact":
		i := o.a
		it, _ := m.sto.term(i)
		if i > m.snapIdx {
			if _, err := s.st.CreateSnapshot(i, &pb.ConfState{Voters: []uint64{1}}, nil); err != nil {
				return fmt.Sprintf("CreateSnapshot(%d): %v", i, err)
			}
			m.snapIdx, m.snapTerm = i, it
		} else if _, err := s.st.CreateSnapshot(i, nil, nil); !errors.Is(err, raft.ErrSnapOutOfDate) {
			return fmt.Sprintf("CreateSnapshot(%d) at or below snapshot %d: err=%v, want ErrSnapOutOfDate", i, m.snapIdx, err)
		}
		if err := s.st.Compact(i); err != nil {
			return fmt.Sprintf("Compact(%d): %v", i, err)
		}
		m.sto = alist{base: i, baseTerm: it, ents: append([]aent(nil), m.sto.ents[i-m.sto.base:]...)}
		if err := s.st.Compact(i); !errors.Is(err, raft.ErrCompacted) {
			return fmt.Sprintf("second Compact(%d): err=%v, want ErrCompacted", i, err)
		}
	default:
		return "harness: unknown op " + o.kind
	}
	return ""
}

func refLimit(ents []aent, maxSize uint64) []aent {
	if len(ents) == 0 {
		return ents
	}
	var pents []*pb.Entry
	for _, e := range ents {
		pents = append(pents, e.pb())
	}
	size := raft.VerifEntsSize(pents[:1])
	n := 1
	for ; n < len(pents); n++ {
		size += raft.VerifEntsSize(pents[n : n+1])
		if size > maxSize {
			break
		}
	}
	return ents[:n]
}

func sameEnts(got []*pb.Entry, want []aent) bool {
	if len(got) != len(want) {
		return false
	}
	for k := range got {
		if got[k].GetIndex() != want[k].index || got[k].GetTerm() != want[k].term || len(got[k].GetData()) != want[k].size {
			return false
		}
	}
	return true
}

// compare checks every query of storage and log against the model.
func (s *sut) compare() (res string) {
	defer func() {
		if r := recover(); r != nil {
			res = fmt.Sprintf("panic in a query: %v", r)
		}
	}()
	m := s.m
	// ---- storage contract probes: a snapshot at or below the one the storage holds is out of
	// date; installing it again (a replayed or duplicated installation) must change nothing
	if sn, err := s.st.Snapshot(); err == nil && sn.GetMetadata().GetIndex() > 0 {
		if err := s.st.ApplySnapshot(proto.Clone(sn).(*pb.Snapshot)); !errors.Is(err, raft.ErrSnapOutOfDate) {
			return fmt.Sprintf("ApplySnapshot of the snapshot the storage already holds (index %d): err=%v, want ErrSnapOutOfDate", sn.GetMetadata().GetIndex(), err)
		}
		if idx := sn.GetMetadata().GetIndex(); idx > 1 {
			old := &pb.Snapshot{Metadata: &pb.SnapshotMetadata{Index: new(idx - 1), Term: new(sn.GetMetadata().GetTerm()), ConfState: &pb.ConfState{Voters: []uint64{1}}}}
			if err := s.st.ApplySnapshot(old); !errors.Is(err, raft.ErrSnapOutOfDate) {
				return fmt.Sprintf("ApplySnapshot(%d) below the snapshot the storage holds (%d): err=%v, want ErrSnapOutOfDate", idx-1, idx, err)
			}
		}
	}
	// ---- slices handed out earlier must still hold what they held (entries are immutable and
	// a later compaction, append or snapshot must not write into memory that was handed out)
	for _, h := range s.held {
		if !sameEnts(h.ents, h.want) {
			return fmt.Sprintf("a slice handed out earlier by %s changed afterwards: now %s, was %v", h.what, describe(h.ents), h.want)
		}
	}
	// ---- storage
	if fi, _ := s.st.FirstIndex(); fi != m.sto.base+1 {
		return fmt.Sprintf("storage.FirstIndex = %d, want %d", fi, m.sto.base+1)
	}
	if li, _ := s.st.LastIndex(); li != m.sto.last() {
		return fmt.Sprintf("storage.LastIndex = %d, want %d", li, m.sto.last())
	}
	if sn, _ := s.st.Snapshot(); sn.GetMetadata().GetIndex() != m.snapIdx || sn.GetMetadata().GetTerm() != m.snapTerm {
		return fmt.Sprintf("storage.Snapshot = (%d,t%d), want (%d,t%d)", sn.GetMetadata().GetIndex(), sn.GetMetadata().GetTerm(), m.snapIdx, m.snapTerm)
	}
	for i := uint64(0); i <= m.sto.last()+2; i++ {
		t, err := s.st.Term(i)
		wt, ok := m.sto.term(i)
		switch {
		case i < m.sto.base:
			if !errors.Is(err, raft.ErrCompacted) {
				return fmt.Sprintf("storage.Term(%d) = (%d,%v), want ErrCompacted", i, t, err)
			}
		case !ok:
			if !errors.Is(err, raft.ErrUnavailable) {
				return fmt.Sprintf("storage.Term(%d) = (%d,%v), want ErrUnavailable", i, t, err)
			}
		default:
			if err != nil || t != wt {
				return fmt.Sprintf("storage.Term(%d) = (%d,%v), want %d", i, t, err, wt)
			}
		}
	}
	limits := []uint64{0, 8, 20, math.MaxUint64}
	for lo := uint64(0); lo <= m.sto.last()+1; lo++ {
		for hi := lo; hi <= m.sto.last()+1; hi++ {
			for _, mx := range limits {
				got, err := s.st.Entries(lo, hi, mx)
				switch {
				case lo <= m.sto.base:
					if !errors.Is(err, raft.ErrCompacted) {
						return fmt.Sprintf("storage.Entries(%d,%d) err=%v, want ErrCompacted", lo, hi, err)
					}
				case len(m.sto.ents) == 0:
					if !errors.Is(err, raft.ErrUnavailable) {
						return fmt.Sprintf("storage.Entries(%d,%d) on an empty log err=%v, want ErrUnavailable", lo, hi, err)
					}
				default:
					want := refLimit(m.sto.ents[lo-m.sto.base-1:hi-m.sto.base-1], mx)
					if err != nil || !sameEnts(got, want) {
						return fmt.Sprintf("storage.Entries(%d,%d,max=%d) = %d entries err=%v, want %d: %v", lo, hi, mx, len(got), err, len(want), want)
					}
					if lo == m.sto.base+1 && hi == m.sto.last()+1 && mx == math.MaxUint64 && len(got) > 0 {
						s.held = append(s.held, heldSlice{fmt.Sprintf("storage.Entries(%d,%d)", lo, hi), got, append([]aent(nil), want...)})
					}
				}
			}
		}
	}
	// ---- combined log view
	first := m.sto.base + 1
	if m.pendSnap != 0 {
		first = m.pendSnap + 1
	}
	if got := s.l.FirstIndex(); got != first {
		return fmt.Sprintf("log.firstIndex = %d, want %d", got, first)
	}
	if got := s.l.LastIndex(); got != m.log.last() {
		return fmt.Sprintf("log.lastIndex = %d, want %d", got, m.log.last())
	}
	if s.l.Committed() != m.committed || s.l.Applied() != m.applied {
		return fmt.Sprintf("log committed/applied = %d/%d, want %d/%d", s.l.Committed(), s.l.Applied(), m.committed, m.applied)
	}
	uoff, uprog, _, _, _ := s.l.Unstable()
	if uoff != m.acked+1 {
		return fmt.Sprintf("unstable.offset = %d, want %d (entries up to %d acknowledged stable)", uoff, m.acked+1, m.acked)
	}
	if uprog != m.inProg+1 {
		return fmt.Sprintf("unstable.offsetInProgress = %d, want %d", uprog, m.inProg+1)
	}
	// the view: entries from first..last are the logical log; the term at first-1 is the compaction/snapshot term
	view := alist{base: first - 1}
	if bt, ok := m.log.term(first - 1); ok {
		view.baseTerm = bt
	} else if bt, ok := m.sto.term(first - 1); ok {
		view.baseTerm = bt
	}
	if first-1 >= m.log.base {
		view.ents = m.log.ents[first-1-m.log.base:]
	}
	for i := uint64(0); i <= m.log.last()+2; i++ {
		t, err := s.l.Term(i)
		switch {
		case i+1 < first:
			if !errors.Is(err, raft.ErrCompacted) {
				return fmt.Sprintf("log.term(%d) = (%d,%v), want ErrCompacted (first index %d)", i, t, err, first)
			}
		case i > m.log.last():
			if !errors.Is(err, raft.ErrUnavailable) {
				return fmt.Sprintf("log.term(%d) = (%d,%v), want ErrUnavailable", i, t, err)
			}
		default:
			wt, _ := view.term(i)
			if err != nil || t != wt {
				return fmt.Sprintf("log.term(%d) = (%d,%v), want %d", i, t, err, wt)
			}
		}
	}
	for lo := uint64(1); lo <= m.log.last()+1; lo++ {
		for hi := lo; hi <= m.log.last()+1; hi++ {
			for _, mx := range limits {
				got, err := s.l.Slice(lo, hi, mx)
				if lo < first {
					if !errors.Is(err, raft.ErrCompacted) {
						return fmt.Sprintf("log.slice(%d,%d) err=%v, want ErrCompacted", lo, hi, err)
					}
					continue
				}
				want := refLimit(view.ents[lo-first:hi-first], mx)
				if err != nil || !sameEnts(got, want) {
					return fmt.Sprintf("log.slice(%d,%d,max=%d) = %v err=%v, want %v", lo, hi, mx, describe(got), err, want)
				}
				if lo == first && hi == m.log.last()+1 && mx == math.MaxUint64 && len(got) > 0 {
					s.held = append(s.held, heldSlice{fmt.Sprintf("log.slice(%d,%d)", lo, hi), got, append([]aent(nil), want...)})
				}
			}
		}
	}
	return ""
}

func describe(ents []*pb.Entry) string {
	s := "["
	for _, e := range ents {
		s += fmt.Sprintf("(%d,t%d,%dB)", e.GetIndex(), e.GetTerm(), len(e.GetData()))
	}
	return s + "]"
}

func (s *sut) key() [16]byte {
	m := s.m
	h := sha256.New()
	fmt.Fprintf(h, "%v|%d|%d|%d|%d|%v|%d|%d|%v|%v|%d|%d|%d|%d|%d|%d", m.log, m.committed, m.applied, m.acked, m.pendSnap, m.sto, m.snapIdx, m.snapTerm, batchKey(m.pipe), batchKey(m.acks), m.inProg, m.term, m.epoch, m.ledTerm, m.folTerm, m.folD)
	h.Write(s.st.VerifFingerprint(nil))
	fmt.Fprint(h, s.l.String())
	uoff, uprog, uents, usnap, uinp := s.l.Unstable()
	fmt.Fprintf(h, "%d|%d|%s|%v|%v", uoff, uprog, describe(uents), usnap.GetMetadata().GetIndex(), uinp)
	var k [16]byte
	copy(k[:], h.Sum(nil))
	return k
}

// batchKey renders batches without the raw slices (whose addresses are not state).
func batchKey(bs []batch) string {
	s := ""
	for _, b := range bs {
		s += fmt.Sprintf("{%v %d %d %d %d %d}", b.ents, b.snapIdx, b.snapTerm, b.ackIdx, b.ackTerm, b.epoch)
	}
	return s
}

func replayOps(async bool, ops []lop) (*sut, string) {
	s := newSUT(math.MaxUint64)
	s.async = async
	for _, o := range ops {
		if msg := s.apply(o); msg != "" {
			return s, msg
		}
		s.hold()
	}
	return s, ""
}

// hold asks the storage and the log for everything they have, as a leader building a
// MsgApp does, and keeps the returned slices: later operations must not change them.
func (s *sut) hold() {
	keep := func(what string, ents []*pb.Entry, err error) {
		if err != nil || len(ents) == 0 {
			return
		}
		var want []aent
		for _, e := range ents {
			want = append(want, aent{index: e.GetIndex(), term: e.GetTerm(), size: len(e.GetData())})
		}
		s.held = append(s.held, heldSlice{what, ents, want})
	}
	defer func() { _ = recover() }() // queries that panic are reported by compare()
	if fi, _ := s.st.FirstIndex(); fi > 0 {
		if li, _ := s.st.LastIndex(); li >= fi {
			ents, err := s.st.Entries(fi, li+1, math.MaxUint64)
			keep(fmt.Sprintf("storage.Entries(%d,%d)", fi, li+1), ents, err)
		}
	}
	if fi, li := s.l.FirstIndex(), s.l.LastIndex(); li >= fi {
		ents, err := s.l.Slice(fi, li+1, math.MaxUint64)
		keep(fmt.Sprintf("log.slice(%d,%d)", fi, li+1), ents, err)
	}
}

func runLogStore(tier string, deadline time.Time) *Report {
	start := time.Now()
	r := &Report{Exhaustive: true}
	maxLen := 7
	if tier == "thorough" {
		maxLen = 10
	}
	if tier == "thorough" {
		runStorageOnly(r, 5)
	} else {
		runStorageOnly(r, 4)
	}
	type node struct {
		ops []lop
	}
	var mu sync.Mutex
	for _, async := range []bool{false, true} {
		root, _ := replayOps(async, nil)
		seen := map[[16]byte]bool{root.key(): true}
		frontier := []node{{}}
		r.States++
		depth := 0
		for ; depth < maxLen && len(frontier) > 0; depth++ {
			var next []node
			cut := false
			// expand the frontier with a pool of goroutines (every successor is rebuilt by replay, so they are independent)
			work := make(chan int, len(frontier))
			for fi := range frontier {
				work <- fi
			}
			close(work)
			var wg sync.WaitGroup
			for g := 0; g < 12; g++ {
				wg.Add(1)
				go func() {
					defer wg.Done()
					for fi := range work {
						if fi%64 == 0 && !deadline.IsZero() && time.Now().After(deadline) {
							mu.Lock()
							cut = true
							mu.Unlock()
						}
						mu.Lock()
						c := cut || len(r.Violations) >= 5
						mu.Unlock()
						if c {
							continue
						}
						nd := frontier[fi]
						s, _ := replayOps(async, nd.ops)
						for _, o := range s.enabled() {
							s2, msg := replayOps(async, nd.ops)
							if msg == "" {
								msg = s2.apply(o)
							}
							if msg == "" {
								msg = s2.compare()
							}
							seq := append(append([]lop(nil), nd.ops...), o)
							var k [16]byte
							if msg == "" {
								k = s2.key()
							}
							mu.Lock()
							r.Transitions++
							r.Evaluations++
							if msg != "" {
								if len(r.Violations) < 5 {
									r.Violations = append(r.Violations, fmt.Sprintf("async=%v %v: %s", async, seq, msg))
								}
								mu.Unlock()
								continue
							}
							if seen[k] {
								mu.Unlock()
								continue
							}
							seen[k] = true
							r.States++
							r.Nontrivial++
							next = append(next, node{ops: seq})
							if len(r.Samples) < 3 && len(seq) >= 6 && (o.kind == "ack-unguarded" || o.kind == "compact" || o.kind == "restore") {
								r.Samples = append(r.Samples, fmt.Sprint(seq))
							}
							mu.Unlock()
						}
					}
				}()
			}
			wg.Wait()
			if cut {
				r.Exhaustive = false
				r.Caps = append(r.Caps, fmt.Sprintf("async=%v: deadline reached while expanding length %d; all sequences up to length %d are covered", async, depth+1, depth))
				frontier = nil
				break
			}
			// deterministic order of the next frontier regardless of goroutine timing
			sort.Slice(next, func(a, b int) bool { return fmt.Sprint(next[a].ops) < fmt.Sprint(next[b].ops) })
			frontier = next
			if len(r.Violations) >= 5 {
				break
			}
		}
		if len(frontier) > 0 && r.Exhaustive {
			r.Caps = append(r.Caps, fmt.Sprintf("async=%v: length bound %d reached with %d distinct states to extend (the space is unbounded; complete up to that length)", async, maxLen, len(frontier)))
		}
		// the deadline is shared: the second mode gets what is left
	}
	if len(r.Samples) == 0 {
		r.Samples = append(r.Samples, "no long sequence sampled")
	}
	r.Domains = append(r.Domains, fmt.Sprintf("all operation sequences up to length %d over {leader append (term t or t+1, small/large), follower append anchored at last/last-1/last-2 with 1-2 entries of term t or t+1 (matching, extending or conflicting), Ready hand-out, persist (FIFO), acknowledge (guarded by the term epoch as raft.Step does, or unguarded when the acknowledged (index,term) no longer matches), restore(snapshot), commit, apply (stable-only or not), snapshot+compact}; terms <= 3; every first/last/term/slice/Entries query with limits {0, 8 bytes, unlimited} compared after every operation", maxLen))
	r.WallS = time.Since(start).Seconds()
	return r
}
