package smallscope

import (
	"encoding/json"
	"fmt"
	"os"
	"path/filepath"
	"time"
)

// Main runs one small-scope check, writes its evidence and returns the exit code.
func Main(prop, tier, verifDir string, seed int64) int {
	budget := 60 * time.Second
	if tier == "thorough" {
		budget = 12 * time.Minute
	}
	deadline := time.Now().Add(budget)
	var r *Report
	var rule, expl string
	switch prop {
	case "C12":
		r = RunQuorum(tier)
		rule = "every input of the listed finite domains is generated exactly once; a case is non-trivial when some voter has acknowledged a positive index / cast a vote (the result is not forced by emptiness)"
		expl = "exhaustive enumeration of voter sets, acked-index vectors and vote vectors; each case compares quorum.MajorityConfig/JointConfig (and tracker.Committed/TallyVotes) with the literal reference arithmetic of the statement"
	case "C13":
		r = RunConfChange(tier, deadline)
		rule = "breadth-first closure over configurations (deduplicated on the canonical form of Config and progress shape); every operation of the alphabet is applied to every reachable configuration; non-trivial = accepted operations"
		expl = "explicit-state search over the real confchange.Changer: each transition calls Simple/EnterJoint/LeaveJoint and compares result, error, input preservation, invariants and ConfState round trip with an independent reference model"
	case "C18":
		r = RunLogStore(tier, deadline)
		rule = "breadth-first over operation sequences on the real raftLog+MemoryStorage pair, deduplicated on the abstract state plus the concrete fingerprint; after every operation every query is compared with the abstract log; non-trivial = operations that changed the state"
		expl = "explicit-state search over operation sequences (append, conflicting follower append, Ready/persist/ack pipeline with stale acknowledgements, restore, compaction, snapshots, commit/apply) against an abstract list-with-compacted-prefix model"
	default:
		fmt.Println("unknown small-scope property", prop)
		return 2
	}
	cov := map[string]any{
		"evaluations": r.Evaluations, "distinct_nontrivial": r.Nontrivial, "rule": rule, "samples": r.Samples,
		"exhaustive": r.Exhaustive, "domains": r.Domains, "explanation": expl,
	}
	if r.States > 0 {
		cov["states"] = r.States
		cov["transitions"] = r.Transitions
		cov["traces_validated_against_impl"] = r.Transitions // every transition is a call into the implementation itself
	}
	if len(r.Caps) > 0 {
		cov["caps"] = r.Caps
	}
	ev := map[string]any{
		"property_id": prop, "tier": tier, "seed": seed, "level": "model_checking",
		"coverage": cov, "wall_s": float64(int(r.WallS*10)) / 10, "violations": len(r.Violations),
		"assumptions": []string{"the reference model in /verif/refmodel (and the abstract log in smallscope) states the property correctly", "domains as listed; nothing is claimed beyond them"},
	}
	os.MkdirAll(filepath.Join(verifDir, "evidence"), 0o755)
	b, _ := json.MarshalIndent(ev, "", " ")
	os.WriteFile(filepath.Join(verifDir, "evidence", prop+".json"), b, 0o644)
	fmt.Printf("%s/%s: evaluations=%d nontrivial=%d states=%d transitions=%d exhaustive=%v violations=%d wall=%.1fs\n",
		prop, tier, r.Evaluations, r.Nontrivial, r.States, r.Transitions, r.Exhaustive, len(r.Violations), r.WallS)
	if len(r.Violations) > 0 {
		os.MkdirAll(filepath.Join(verifDir, "replays"), 0o755)
		p := filepath.Join(verifDir, "replays", fmt.Sprintf("%s-smallscope.json", prop))
		vb, _ := json.MarshalIndent(map[string]any{"property": prop, "tier": tier, "violations": r.Violations}, "", " ")
		os.WriteFile(p, vb, 0o644)
		fmt.Printf("VIOLATION property=%s replay=%s\n", prop, p)
		for _, v := range r.Violations {
			fmt.Println("  ", v)
		}
		return 1
	}
	return 0
}
