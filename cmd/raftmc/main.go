package main

import (
	"flag"
	"fmt"
	"os"
	"runtime/pprof"
	"time"

	"verif/mc"
	"verif/smallscope"
)

// outDir is where evidence and replays are written: /verif, unless VERIF_OUT redirects it
// (used when the checker is run against a scratch copy of the repository).
func outDir() string {
	if d := os.Getenv("VERIF_OUT"); d != "" {
		os.MkdirAll(d, 0o755)
		src := "/verif/known_findings.json"
		if k := os.Getenv("VERIF_KNOWN"); k != "" { // development worktrees of /verif
			src = k
		}
		if b, err := os.ReadFile(src); err == nil {
			os.WriteFile(d+"/known_findings.json", b, 0o644)
		}
		return d
	}
	return "/verif"
}

func main() {
	if len(os.Args) < 2 {
		fmt.Println("usage: raftmc selftest|check|worker|replay ...")
		os.Exit(2)
	}
	switch os.Args[1] {
	case "list":
		// prints the scenario catalogue: which scenarios each check runs in each tier
		for _, tier := range []string{"quick", "thorough"} {
			fmt.Printf("## %s tier\n\n", tier)
			for i := 1; i <= 20; i++ {
				prop := fmt.Sprintf("C%02d", i)
				jobs := mc.Jobs(prop, tier)
				if len(jobs) == 0 {
					continue
				}
				fmt.Printf("### %s (%d jobs)\n\n", prop, len(jobs))
				for _, j := range jobs {
					if j.Node != nil {
						fmt.Printf("- `%s` (Node front end: all client operation sequences up to length %d over %d operations, prefix of %d)\n", j.Name, j.Node.Depth, len(j.Node.Ops), len(j.Node.Prefix))
						continue
					}
					extra := ""
					if j.Strategy == "ddfs" {
						extra = fmt.Sprintf(" k<=%d, script of %d operations", j.Sc.DevBound, len(j.Sc.Script))
					}
					if j.Suffix {
						extra += " +convergence suffix"
					}
					fmt.Printf("- `%s` (%s%s; %d nodes)\n", j.Name, j.Strategy, extra, j.Sc.N)
				}
				fmt.Println()
			}
		}
		return
	case "replay":
		if len(os.Args) < 3 {
			fmt.Println("usage: raftmc replay <file> [-v]")
			os.Exit(2)
		}
		os.Exit(mc.ReplayMain(os.Args[2], len(os.Args) > 3))
	case "small":
		fs := flag.NewFlagSet("small", flag.ExitOnError)
		prop := fs.String("prop", "", "property id")
		tier := fs.String("tier", "quick", "quick|thorough")
		fs.Parse(os.Args[2:])
		var seed int64
		fmt.Sscan(os.Getenv("VERIF_SEED"), &seed)
		os.Exit(smallscope.Main(*prop, *tier, outDir(), seed))
	case "worker":
		mc.WorkerMain()
		return
	case "check":
		fs := flag.NewFlagSet("check", flag.ExitOnError)
		prop := fs.String("prop", "", "property id")
		tier := fs.String("tier", "quick", "quick|thorough")
		procs := fs.Int("procs", 16, "worker processes")
		budget := fs.Float64("budget", 0, "wall-clock budget in seconds (0 = tier default)")
		only := fs.String("only", "", "run only jobs whose name contains this string")
		fs.Parse(os.Args[2:])
		if t := os.Getenv("VERIF_TIER"); t != "" && *tier == "" {
			*tier = t
		}
		if v := os.Getenv("VERIF_BUDGET"); v != "" && *budget == 0 {
			fmt.Sscan(v, budget)
		}
		if *budget == 0 {
			*budget = 70
			if *tier == "thorough" {
				*budget = 600
			}
		}
		var seed int64
		fmt.Sscan(os.Getenv("VERIF_SEED"), &seed)
		switch *prop {
		case "C12", "C13", "C18":
			os.Exit(smallscope.Main(*prop, *tier, outDir(), seed))
		}
		self, _ := os.Executable()
		mc.OnlyFilter = *only
		os.Exit(mc.Check(*prop, *tier, outDir(), self, *procs, *budget, seed))
	case "selftest":
		fs := flag.NewFlagSet("selftest", flag.ExitOnError)
		par := fs.Int("par", 16, "goroutines")
		prof := fs.String("cpuprofile", "", "write cpu profile")
		fs.Parse(os.Args[2:])
		if *prof != "" {
			f, _ := os.Create(*prof)
			pprof.StartCPUProfile(f)
			defer pprof.StopCPUProfile()
		}
		sc := &mc.Scenario{Name: "selftest-basic", N: 3, Cfg: []mc.NodeCfg{mc.DefaultNodeCfg()}, Voters: []uint64{1, 2, 3}}
		sc.Budget[mc.BCampaign] = 1
		sc.Budget[mc.BPropose] = 1
		mf := func() []mc.Monitor { return []mc.Monitor{mc.NewMonC01(), mc.NewMonC03()} }
		t0 := time.Now()
		r := mc.BFS(sc, mf, mc.Limits{Par: *par})
		fmt.Printf("states=%d transitions=%d replays=%d maxdepth=%d terminal=%d outcomes=%d exhaustive=%v found=%d err=%q wall=%.1fs\n",
			r.States, r.Transitions, r.Replays, r.MaxDepth, r.Terminal, len(r.Outcomes), r.Exhaustive, len(r.Found), r.HarnessErr, time.Since(t0).Seconds())
		if mp := os.Getenv("MEMPROF"); mp != "" {
			f, _ := os.Create(mp)
			pprof.Lookup("allocs").WriteTo(f, 0)
			f.Close()
		}
		for _, s := range r.Samples[:1] {
			for _, l := range s {
				fmt.Println("  ", l)
			}
		}
		for _, f := range r.Found {
			fmt.Println(f.V)
			for _, l := range f.Trace {
				fmt.Println("  ", l)
			}
		}
	}
}
