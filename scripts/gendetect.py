#!/usr/bin/env python3
"""Rewrites the seed table of DESIGN.md §15.5 from seeded/*/meta.json and seeded/REPORT.md (run from the repository root)."""
import json, re, glob, os
root = os.path.dirname(os.path.dirname(os.path.abspath(__file__)))
rep = {}
for l in open(os.path.join(root, 'seeded/REPORT.md')):
    m = re.match(r'\| (\S+) \| (\S+) \| rc=(\d) \|', l)
    if m:
        rep.setdefault(m.group(1), []).append((m.group(2), m.group(3)))
def key(d):
    m = re.match(r'S(\d*)-C(\d+)', os.path.basename(d))
    return (int(m.group(1) or 1), int(m.group(2)))
rows = []
for d in sorted(glob.glob(os.path.join(root, 'seeded/S*-C*')), key=key):
    m = json.load(open(d + '/meta.json'))
    sid = m['id']
    caught = ', '.join(dict.fromkeys(p for p, rc in rep.get(sid, []) if rc == '1'))
    if not caught:
        caught = ', '.join(m.get('checks_expected_to_catch', [])) + ' (scratch-worktree run)' if m.get('checks_expected_to_catch') else '—'
    rows.append(f"| {sid} | {m['change'][:150]} | {caught} |")
p = os.path.join(root, 'DESIGN.md')
s = open(p).read()
a = s.index('| seed | change | caught by (quick tier) |')
b = s.index('Own mutants (`mutants/*.patch`')
s = s[:a] + '| seed | change | caught by (quick tier) |\n|---|---|---|\n' + '\n'.join(rows) + '\n\n' + s[b:]
open(p, 'w').write(s)
print(len(rows), 'seeds')
