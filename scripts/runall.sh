#!/bin/sh
# Runs every claimed check of MANIFEST.json in the given tier (default quick), sequentially.
tier=${1:-quick}
cd /verif || exit 2
for p in $(python3 -c "import json;print(' '.join(c['property_id'] for c in json.load(open('MANIFEST.json'))['checks']))"); do
  echo "=== $p $tier"
  scripts/check.sh $p $tier 2>&1 | tail -4
  echo "exit=$?"
done
