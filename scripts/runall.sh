#!/bin/sh
# Runs every claimed check of MANIFEST.json in the given tier (default quick), sequentially.
tier=${1:-quick}
cd /verif || exit 2
for p in $(python3 -c "import json;print(' '.join(c['property_id'] for c in json.load(open('MANIFEST.json'))['checks']))"); do
  echo "=== $p $tier"
  scripts/check.sh $p $tier > /tmp/runall_$p.log 2>&1
  rc=$?
  grep -E "^(VIOLATION|KNOWN-FINDING|HARNESS)" /tmp/runall_$p.log | cut -c1-300 | head -20
  tail -1 /tmp/runall_$p.log
  rm -f /tmp/runall_$p.log
  echo "exit=$rc"
done
