#!/bin/sh
# usage: scripts/addseed.sh <agent-worktree-dir> <seed-name> <property> "<checks>" "<change>" "<needs>"
# Confirms a seeded change in the scratch worktree /tmp/mut (suite passes with it; demo fails with it and
# passes without it) and stores it under /verif/seeded/<seed-name>/.
d=$1; name=$2; prop=$3; checks=$4; change=$5; needs=$6
[ -d /tmp/mut ] || git -C /repo worktree add -q --detach /tmp/mut HEAD || exit 2  # scratch worktree; remove with: git -C /repo worktree remove --force /tmp/mut
cd /tmp/mut || exit 2
git checkout -q -- . ; git clean -fdq
git apply $d/patch.diff || { echo "$name: patch does not apply"; exit 1; }
# rafttest holds wall-clock based live tests that flake when the machine is loaded: a failure has to repeat three times
suite=FAIL
for try in 1 2 3; do
  if GOFLAGS=-mod=mod go test -count=1 ./... >/tmp/seedsuite_$name.log 2>&1; then suite=PASS; break; fi
done
demo=$(ls $d/seeded_*_demo_test.go $d/*/seeded_*_demo_test.go 2>/dev/null | head -1); rel=${demo#$d/}; cp $demo $rel; pkg=./$(dirname $rel)
if GOFLAGS=-mod=mod go test -count=1 -run "TestSeeded$prop" $pkg >/tmp/seeddemo_with_$name.log 2>&1; then with=PASS; else with=FAIL; fi
git apply -R $d/patch.diff
if GOFLAGS=-mod=mod go test -count=1 -run "TestSeeded$prop" $pkg >/tmp/seeddemo_without_$name.log 2>&1; then without=PASS; else without=FAIL; fi
rm -f $rel; git checkout -q -- .
echo "$name: suite-with-change=$suite demo-with=$with demo-without=$without"
[ "$suite" = PASS ] && [ "$with" = FAIL ] && [ "$without" = PASS ] || { echo "$name: NOT confirmed"; exit 1; }
t=/verif/seeded/$name; mkdir -p $t; cp $d/patch.diff $d/SEEDED.md $demo $t/
python3 - "$name" "$prop" "$checks" "$change" "$needs" "$(basename $demo)" <<'PY'
import json,sys
name,prop,checks,change,needs,demo=sys.argv[1:7]
m={"id":name,"breaks_property":prop,"source":"independent sub-agent given only the property text and a scratch worktree","change":change,"needs_to_manifest":needs,
 "confirmed":{"worktree":"scratch worktree /tmp/mut of /repo at HEAD","suite_with_change":"go test -count=1 ./... : all packages ok","demo_with_change":"go test -run TestSeeded%s : FAIL"%prop,"demo_without_change":"PASS"},
 "demo":demo,"checks_expected_to_catch":checks.split()}
json.dump(m,open('/verif/seeded/%s/meta.json'%name,'w'),indent=1)
PY
