#!/usr/bin/env python3
"""Regenerates MANIFEST.json from the table below (run from /verif)."""
import json, subprocess

HOOK_COMMITS = subprocess.run(["git", "-C", "/repo", "log", "--format=%h %s", "--grep=^verif:"], capture_output=True, text=True).stdout.strip().splitlines()

MC = "explicit-state model checking of the real implementation: exhaustive E-BFS over all interleavings of small scenarios plus deviation-bounded D-DFS along scripted scenarios; oracle evaluated on every transition"
props = {
 "C01": ("Every entry handed to any application (any incarnation, incl. snapshots as whole prefixes) is compared with the first entry handed out at that index, on every transition of every explored execution: elections, replication, failover, figure-8, restarts at every persistence sub-step, snapshots, membership changes; sync and async storage.", "§7 C01"),
 "C02": ("One leader per term (id and incarnation), one released grant per (voter, term) across restarts, up-to-date restriction at the granting step, and 'became leader only on delivered grants forming a joint majority' are checked on every transition of dueling-candidate BFS (2 campaigns, terms<=3, dup/crash) and scripted failover/membership D-DFS.", "§7 C02"),
 "C03": ("Pairwise log matching of all logical logs (stable+unstable) plus contiguity/term monotonicity in every explored state.", "§7 C03"),
 "C04": ("On every transition into leadership the new leader's log is compared with the record of entries committed under earlier terms; across every MsgApp/MsgSnap step no such entry may be lost.", "§7 C04"),
 "C05": ("At the instant any vote/append/snapshot acknowledgement is released the sender's stable storage is inspected; all crash points (composite ReadyCrash/AppendCrash at every persistence sub-step, loss of unsynced hard state, both Applied choices) are enumerated and the C01-C04/C06 oracles stay armed across them.", "§7 C05"),
 "C06": ("Every leader commit advance is checked against the disks of a reference joint majority and the leader's term; every follower commit adoption against what leaders committed; commit<=last in every state.", "§7 C06"),
 "C07": ("Exposed hard states are checked for monotone term/commit and single vote per term per incarnation; restart must resume exactly from disk; no released message below the persisted term.", "§7 C07"),
 "C08": ("Apply cursor per incarnation: contiguity, exactly-once, within commit, durable-only in async mode, silence during snapshot install, restart at the configured Applied index; under pagination limits and snapshot/restart interleavings.", "§7 C08"),
 "C09": ("Every Step(MsgSnap) is classified by a reference rule (obsolete / matching / to be installed) and the post-state compared; every released MsgSnap is compared with the committed record, the global applied chain and the reference fold of committed conf changes.", "§7 C09"),
 "C10": ("Configuration after every ApplyConfChange/restore/restart equals a reference fold (independent Go model of the configuration algebra) of the committed changes; one-change-at-a-time at leaders; no campaign over committed-unapplied changes; joint majorities via the C02/C06 oracles while joint.", "§7 C10"),
 "C11": ("Every ReadState is compared with the highest commit index any node had reported when the request was issued; answers require a committed entry of the leader's term and heartbeat responses from a reference joint majority after the request arrived.", "§7 C11"),
 "C14": ("Every call into raft/storage in every explored execution of every scenario pool runs under recover(); any panic raised by the library is a violation (harness faults are reported separately).", "§7 C14"),
}
props["C12"] = ("Exhaustive enumeration of voter sets (sizes 0..9, scattered ids), acked-index vectors and vote vectors, and of all ordered pairs of subsets of {1..4} for joint configurations; quorum.MajorityConfig/JointConfig and tracker.Committed/TallyVotes are compared case by case with the literal arithmetic of the statement. The domain is finite and enumerated completely.", "§8 C12")
props["C13"] = ("Breadth-first closure of all configurations over ids 1..4 reachable from every single-voter configuration under every Simple/EnterJoint/LeaveJoint operation with every change sequence of length <= 2 (incl. id 0 and duplicates); every transition calls the real confchange.Changer and is compared with an independent reference model, the invariants, input preservation and the ConfState round trip. Finite and closed (exhaustive).", "§8 C13")
props["C18"] = ("Breadth-first enumeration of all operation sequences up to a length bound over the real raftLog+MemoryStorage pair (append, conflicting follower appends from one consistent leader log per term, Ready/persist/acknowledge pipeline with stale acknowledgements, restore, commit/apply, snapshot+compaction); after every operation every first/last/term/slice/Entries query is compared with an abstract list-with-compacted-prefix.", "§8 C18")
TECH = {"C19": "explicit-state exploration with every state re-executed from scratch and in a second process; key and output-hash comparison",
        "C12": "exhaustive input enumeration over a finite domain against a reference model (explicit-state, no sampling)",
        "C13": "explicit-state breadth-first closure over the real confchange.Changer against a reference model",
        "C18": "explicit-state breadth-first search over operation sequences of the real raftLog/MemoryStorage against an abstract log"}
props["C15"] = ("Bounded convergence: every state discovered by the BFS of small scenarios (fresh cluster, failover, snapshot pending, membership changes in flight; sync/async/PreVote+CheckQuorum) and every end state of all scripted D-DFS executions is used as a start state of a deterministic fault-free suffix (heal, stop removed nodes, report snapshot transfers, deliver everything, tick every node, rotating election-timeout draws); within 40 election timeouts there must be exactly one leader, a fresh proposal applied everywhere, equal logs/commit/applied, no auto-leave joint config, no transfer, no pending snapshot, nothing unstable. This is bounded liveness from every explored state, not 'eventually'.", "§7 C15")
props["C16"] = ("Shadow accounting independent of the library's Inflights on every leader step: size of every produced MsgApp, number and bytes of outstanding entry-bearing appends per streaming follower, silence towards followers awaiting a snapshot, and the uncommitted-size quota at every proposal (evaluated where the library's estimate is exact); limits 0/1/tiny/unlimited, entries smaller and larger than the limits.", "§7 C16")
props["C17"] = ("Tick-driven scripted scenarios (ElectionTick 3, per-node pinned timeouts, extra ticks as deviations) plus dueling BFS with PreVote: candidate transitions need a delivered pre-vote joint majority for that very term (or MsgTimeoutNow); MsgPreVote never changes term/vote; in-lease vote requests are ignored (harness tick count >= raft's); a CheckQuorum leader is gone within 2 election timeouts of last quorum contact. That last clause fails on the unchanged tree when the leader acts on leadership-transfer requests while cut off (known finding KF-3: the check prints KNOWN-FINDING for exactly that signature and reports any leader that also outlives two election timeouts counted from its last transfer request).", "§7 C17")
props["C20"] = ("Every log of every node is compared, whenever it changes, with the harness's own account of proposals: unknown payloads, multiplicities above the number of deliveries to an accepting leader, entries after ErrProposalDropped, empty entries beyond one no-op per term plus neutralisable conf proposals, auto-leave entries outside joint auto-leave configs, batch adjacency/order, bit-for-bit type and payload at the accepting leader.", "§7 C20")
NODE = " The goroutine/channel front end (node.go) is covered by a second explorer: inside a testing/synctest bubble every sequence of client operations up to a length bound (from roots: fresh, leader, follower, single voter, leader removing itself, follower being removed; sync and async storage; PreVote+CheckQuorum) is run against a real raft.Node, one operation at a time, and after every operation the state behind the Node, everything it handed out and every return value must equal a reference RawNode driven by the same operations."
for _p in ("C05", "C10", "C20"):
    props[_p] = (props[_p][0] + NODE, props[_p][1] + ", §16")
props["C19"] = ("Every explored state is computed twice by independent executions of the same path (incrementally through clones and from scratch on fresh objects) and the state key and a running hash over the exact bytes of every Ready, API result and node dump must agree; every job additionally runs in two separate worker processes whose digests over all (key, output hash) pairs must agree. Scenarios include 9-peer groups (beyond on-stack fast paths). Map iteration order cannot be enumerated; it is exercised by repetition (stated in the evidence).", "§7 C19, §15.2")
NOT_YET = {
 "C15": "check not built yet in this revision (bounded convergence suffix planned, DESIGN §7)",
 "C16": "check not built yet in this revision (flow-control shadow accounting planned, DESIGN §7)",
 "C17": "check not built yet in this revision (tick-driven scenarios planned, DESIGN §7)",
 "C18": "check not built yet in this revision (stand-alone op-sequence explorer planned, DESIGN §8)",
 "C19": "check not built yet in this revision (output-hash replay comparison planned, DESIGN §7)",
 "C20": "check not built yet in this revision (proposal accounting monitor planned, DESIGN §7)",
}
try:
    exec(open("scripts/manifest_extra.py").read())
except FileNotFoundError:
    pass

checks = []
for pid, (text, ref) in sorted(props.items()):
    checks.append({
        "property_id": pid,
        "quick_cmd": f"scripts/check.sh {pid} quick",
        "thorough_cmd": f"scripts/check.sh {pid} thorough",
        "evidence_file": f"/verif/evidence/{pid}.json",
        "replay_cmd_template": "bin/raftmc replay {path}",
        "engine": "raftmc" if pid not in ("C12", "C13", "C18") else "smallscope",
        "level_claimed": {"category": "model_checking", "text": text + " Bounds and completeness are reported per scenario in the evidence (exhaustive:true only when every listed scenario was enumerated completely).", "design_ref": ref},
        "level_note": "Trusted base: the harness application model (DESIGN §4), raft.MemoryStorage as the disk, the crash model of DESIGN §3.2/§5.3, the read-only hooks behind build tag 'verif' (validated: clone==source fingerprint, replay==recorded key), and the small reference models in /verif/refmodel. Nothing is claimed beyond the listed bounds (<=5 nodes, <=2-3 faults per execution).",
        "technique": TECH.get(pid, MC) if 'TECH' in dir() else MC,
    })

m = {
 "version": 1,
 "setup_cmd": "sh scripts/setup.sh",
 "hooks": {
   "guard": "verif (Go build tag)",
   "enable": "go build -tags verif (the harness module /verif replaces go.etcd.io/raft/v3 with /repo)",
   "baseline_off_cmd": "cd /repo && go test -vet=off -count=1 -json ./...",
   "source_commits": [c.split()[0] for c in HOOK_COMMITS],
   "add_only": True,
 },
 "engines": [
   {"name": "nodex", "path": "/verif/nodex", "serves_properties": ["C05", "C10", "C20"], "kind_free_text": "hand-written explicit-state explorer of the real raft.Node goroutine (node.go) under testing/synctest: breadth-first over client operation sequences, replay-based successors, differential oracle against RawNode"},
   {"name": "raftmc", "path": "/verif/mc", "serves_properties": [p for p in sorted(props) if p not in ("C12", "C13", "C18")], "kind_free_text": "hand-written explicit-state explorer over the real RawNode/MemoryStorage: E-BFS (all interleavings) and deviation-bounded D-DFS; successors by copy-on-write clones validated against full replays"},
 ],
 "checks": checks,
 "not_applicable": [{"property_id": k, "reason": v} for k, v in sorted(NOT_YET.items()) if k not in props],
 "notes": "See DESIGN.md. Known findings are listed in known_findings.json; violations are written to /verif/replays/.",
}
json.dump(m, open("MANIFEST.json", "w"), indent=1)
print("checks:", len(checks), "not_applicable:", len(m["not_applicable"]))
