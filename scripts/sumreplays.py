import json,glob,collections,sys,re
c=collections.Counter(); ex={}
for f in glob.glob('/verif/replays/*.json'):
    d=json.load(open(f))
    k=(d['Property'],d['Oracle'],d['Job']['Name'])
    c[k]+=1; ex.setdefault(k,(f,d['Detail']))
for k,v in sorted(c.items()): print(v,k, ex[k][0], '\n     ', ex[k][1][:300])
