#!/bin/sh
# usage: scripts/check.sh <property> <quick|thorough>
# Rebuilds the checker against /repo's current working tree (build tag verif) and runs it.
cd /verif || exit 2
export GOFLAGS=-mod=mod GOPROXY=off
unset GOTOOLCHAIN GOSUMDB GONOSUMDB GONOSUMCHECK
mkdir -p bin evidence replays
if ! go build -tags verif -o bin/raftmc ./cmd/raftmc 2>bin/build.log; then
  cat bin/build.log
  echo "BUILD-FAILED: /repo no longer builds with the verif hooks"
  exit 2
fi
exec bin/raftmc check -prop "$1" -tier "${2:-quick}"
