#!/bin/sh
# usage: scripts/check.sh <property> <quick|thorough>
# Rebuilds the checker against /repo's current working tree (build tag verif) and runs it.
cd /verif || exit 2
export GOFLAGS=-mod=mod GOPROXY=off
unset GOTOOLCHAIN GOSUMDB GONOSUMDB GONOSUMCHECK
mkdir -p bin evidence replays
if ! go build -tags verif -o bin/raftmc ./cmd/raftmc 2>bin/build.log; then
  cat bin/build.log
  echo "BUILD-FAILED: /repo no longer builds with the verif hooks"
  exit 2
fi
case "$1" in C05|C10|C20)
  # explorer of the channel front end (node.go); a test binary because it runs inside a testing/synctest bubble
  if ! go test -c -tags verif -vet=off -o bin/nodex.test ./nodex 2>bin/build.log; then
    cat bin/build.log
    echo "BUILD-FAILED: /repo no longer builds with the verif hooks"
    exit 2
  fi;;
esac
exec bin/raftmc check -prop "$1" -tier "${2:-quick}"
