#!/bin/sh
# Builds everything once so that later checks hit a warm build cache. Offline.
cd /verif || exit 2
export GOFLAGS=-mod=mod GOPROXY=off
unset GOTOOLCHAIN GOSUMDB GONOSUMDB GONOSUMCHECK
mkdir -p bin evidence replays
go build -tags verif -o bin/raftmc ./cmd/raftmc || exit 1
go test -c -tags verif -vet=off -o bin/nodex.test ./nodex || exit 1
go vet -tags verif ./mc/ ./refmodel/ >/dev/null 2>&1
echo "setup ok"
