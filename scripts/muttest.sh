#!/bin/sh
# usage: scripts/muttest.sh <patch> <prop> [extra raftmc args]
# Builds the checker against the scratch worktree /tmp/mut with the patch applied (so /repo is not
# touched) and runs one check; evidence/replays go to /tmp/mutout.
patch=$1; prop=$2; shift 2
[ -d /tmp/mut ] || git -C /repo worktree add -q --detach /tmp/mut HEAD || exit 2  # scratch worktree; remove with: git -C /repo worktree remove --force /tmp/mut
cd /tmp/mut && git checkout -q -- . && git clean -fdq && git apply "$patch" || exit 2
cd /verif && sed 's|=> /repo|=> /tmp/mut|' go.mod > /tmp/verif_mut.mod && cp go.sum /tmp/verif_mut.sum
GOFLAGS=-mod=mod go build -modfile=/tmp/verif_mut.mod -tags verif -o /tmp/raftmc_mut ./cmd/raftmc || exit 2
case "$prop" in C05|C10|C20) GOFLAGS=-mod=mod go test -c -modfile=/tmp/verif_mut.mod -tags verif -vet=off -o /tmp/nodex.test ./nodex || exit 2;; esac
VERIF_OUT=/tmp/mutout /tmp/raftmc_mut check -prop $prop "$@" 2>&1 | grep -v "^KNOWN-FINDING" | tail -3 | cut -c1-300
cd /tmp/mut && git checkout -q -- .
