#!/bin/sh
# usage (from a development worktree of /verif): scripts/devmut.sh <patch> <prop> [extra raftmc args]
# Like muttest.sh, but builds the checker from the worktree this script lives in.
here=$(cd "$(dirname "$0")/.." && pwd)
patch=$1; prop=$2; shift 2
[ -d /tmp/mut ] || git -C /repo worktree add -q --detach /tmp/mut HEAD || exit 2  # scratch worktree; remove with: git -C /repo worktree remove --force /tmp/mut
cd /tmp/mut && git checkout -q -- . && git clean -fdq && git apply "$patch" || exit 2
cd "$here" && sed 's|=> /repo|=> /tmp/mut|' go.mod > /tmp/devmut.mod && cp go.sum /tmp/devmut.sum
GOFLAGS=-mod=mod GOPROXY=off go build -modfile=/tmp/devmut.mod -tags verif -o /tmp/devmut/raftmc ./cmd/raftmc || exit 2
case "$prop" in C05|C10|C20) GOFLAGS=-mod=mod GOPROXY=off go test -c -modfile=/tmp/devmut.mod -tags verif -vet=off -o /tmp/devmut/nodex.test ./nodex || exit 2;; esac
VERIF_OUT=/tmp/devmut/out /tmp/devmut/raftmc check -prop $prop "$@" 2>&1 | grep -v "^KNOWN-FINDING" | tail -3 | cut -c1-300
cd /tmp/mut && git checkout -q -- .
