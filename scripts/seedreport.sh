#!/bin/sh
# Runs every seeded change (and own mutants) against the checks that should catch it and writes seeded/REPORT.md.
cd /verif || exit 2
tier=${1:-quick}
out=seeded/REPORT.md
{
echo "# Seeded changes vs checks ($tier tier)"
echo
echo "Each change compiles and passes the repository's unedited test suite; 'rc=1' means the check reported a VIOLATION with the change applied (and reverts /repo afterwards)."
echo
echo '| change | check | result | first violation |'
echo '|---|---|---|---|'
for d in seeded/S*-C*; do
  id=$(basename $d)
  for p in $(python3 -c "import json;print(' '.join(json.load(open('$d/meta.json'))['checks_expected_to_catch']))"); do
    line=$(scripts/seedrun.sh /verif/$d/patch.diff $tier $p 2>&1 | tail -1)
    rc=$(echo "$line" | sed -n 's/.* rc=\([0-9]*\).*/\1/p')
    v=$(echo "$line" | sed 's/.* rc=[0-9]* *//' | cut -c1-160)
    echo "| $id | $p | rc=$rc | $v |"
  done
done
for m in mutants/*.patch; do
  id=$(basename $m .patch)
  props=$(grep "^$id " mutants/EXPECT 2>/dev/null | cut -d' ' -f2-)
  for p in $props; do
    line=$(scripts/seedrun.sh /verif/$m $tier $p 2>&1 | tail -1)
    rc=$(echo "$line" | sed -n 's/.* rc=\([0-9]*\).*/\1/p')
    v=$(echo "$line" | sed 's/.* rc=[0-9]* *//' | cut -c1-160)
    echo "| $id | $p | rc=$rc | $v |"
  done
done
} > $out
cat $out
