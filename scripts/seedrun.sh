#!/bin/sh
# usage: scripts/seedrun.sh <patch-file> <tier> <prop> [<prop>...]
# Applies a seeded change to /repo, runs the given checks, and always reverts /repo.
patch=$1; tier=$2; shift 2
cd /repo || exit 2
if ! git diff --quiet; then echo "/repo is dirty"; exit 2; fi
git apply "$patch" || { echo "patch does not apply"; exit 2; }
trap 'git -C /repo checkout -- . ' EXIT INT TERM
for p in "$@"; do
  out=$(cd /verif && scripts/check.sh $p $tier 2>&1)
  rc=$?
  echo "$(basename $patch) $p rc=$rc $(echo "$out" | grep -m1 -A1 '^VIOLATION' | tail -1 | cut -c1-220)"
done
